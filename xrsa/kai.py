"""Engine A - kernel abstract interpreter.

Symbolically executes loop kernels (numba style) into stores `array[idx] <- value | guards` with values in the
exact rational-function algebra of xrsa.sym.  Every unsupported construct raises AnalysisIncomplete - never a guess.
"""
import ast
import os
from fractions import Fraction

from .program import AnalysisIncomplete, Ext, Func, Partial, norm
from .sym import _akey, App, Poly, Rat, Sym, subst, walk_atoms

# canonical names of elementwise scalar functions
UFUNCS = {
    'sqrt': 'sqrt', 'arctan': 'arctan', 'atan': 'arctan', 'arctan2': 'arctan2', 'atan2': 'arctan2',
    'sin': 'sin', 'cos': 'cos', 'tan': 'tan', 'arcsin': 'arcsin', 'asin': 'arcsin', 'arccos': 'arccos',
    'acos': 'arccos', 'exp': 'exp', 'log': 'log', 'fabs': 'abs', 'abs': 'abs', 'absolute': 'abs',
    'floor': 'floor', 'ceil': 'ceil', 'isnan': 'isnan', 'isfinite': 'isfinite', 'isinf': 'isinf',
    'radians': 'radians', 'degrees': 'degrees', 'hypot': 'hypot', 'power': 'pow', 'pow': 'pow',
    'float32': 'id', 'float64': 'id', 'float': 'id', 'int64': 'int', 'int32': 'int', 'int': 'int',
    'rint': 'round', 'round': 'round', 'sign': 'sign', 'square': 'square',
}
ODD_FUNCS = {'sin', 'tan', 'arctan', 'arcsin', 'sign', 'radians', 'degrees'}
EVEN_FUNCS = {'cos', 'abs'}
EXT_MODS = ('numpy.', 'math.', 'builtins.')
CONSTS = {'numpy.nan': 'nan', 'numpy.NaN': 'nan', 'numpy.NAN': 'nan', 'math.nan': 'nan', 'numpy.inf': 'inf',
          'math.inf': 'inf', 'numpy.pi': 'pi', 'math.pi': 'pi', 'numpy.e': 'e', 'math.e': 'e'}
ALLOCS = {'zeros', 'empty', 'ones', 'full', 'zeros_like', 'empty_like', 'ones_like', 'full_like'}


class Arr:
    """An array known by name; `init` describes its initial content ('param', 'zeros', 'nan', 'empty', value)."""
    def __init__(self, name, init='param', shape=None, dtype=None, like=None):
        self.name = name
        self.init = init
        self.shape = shape
        self.dtype = dtype
        self.like = like

    def __repr__(self):
        return 'Arr(%s,%s)' % (self.name, self.init)


class View:
    """basic slice of an array: per-axis (lo, hi) Rat bounds or an index."""
    def __init__(self, arr, axes):
        self.arr = arr
        self.axes = axes   # list of ('slice', lo, hi) | ('idx', Rat)

    def __repr__(self):
        return 'View(%s,%s)' % (self.arr.name, self.axes)


class FlatAlias:
    """`A.reshape(-1)` / `A.ravel()` of a local array A allocated in C order (np.zeros(shape) ...): a 1-D view of A's memory"""
    def __init__(self, arr, text):
        self.arr, self.text = arr, text

    def __repr__(self):
        return 'Opaque(%s)' % self.text


class TupleV:
    def __init__(self, items):
        self.items = list(items)

    def __repr__(self):
        return 'T%r' % (self.items,)


class Opaque:
    """A value the interpreter does not model (kept as a named unknown)."""
    def __init__(self, text, struct=None):
        self.text = text
        self.struct = struct    # ('where', cond) for np.where(cond); ('matches', cond) for np.where(cond)[0]

    def __repr__(self):
        return 'Opaque(%s)' % self.text


class Store:
    def __init__(self, arr, idx, value, guards, loops, node):
        self.arr = arr          # Arr
        self.idx = idx          # tuple of Rat | 'all' | View axes
        self.value = value
        self.guards = tuple(guards)
        self.loops = tuple(loops)
        self.node = node

    def __repr__(self):
        return 'Store(%s[%s] <- %r | %s)' % (self.arr.name, self.idx, self.value, list(self.guards))


class Loop:
    def __init__(self, var, lo, hi, step, node, kind='range'):
        self.var = var
        self.lo = lo
        self.hi = hi
        self.step = step
        self.node = node
        self.kind = kind

    def __repr__(self):
        return 'Loop(%s in [%r,%r) step %r)' % (self.var, self.lo, self.hi, self.step)


# ----------------------------------------------------------------------------- conditions
def cmp_cond(op, a, b):
    """normalised comparison a op b -> ('cmp', op', key, Rat)"""
    d = a - b
    if op in ('>', '>='):
        d = -d
        op = {'>': '<', '>=': '<='}[op]
    if d.is_const():
        # a comparison of constants is decided (`if iz == 0` with iz = 0)
        v = d.const_value()
        return ('const', {'==': v == 0, '!=': v != 0, '<': v < 0, '<=': v <= 0}[op])
    d = _pos_scale(d)
    if op in ('==', '!='):
        # sign-normalise
        lead = _lead(d)
        if lead < 0:
            d = -d
    return ('cmp', op, d.canon_key(), d)


def _lead(d):
    n, _ = d._canon()
    if not n.t:
        return 0
    return sorted(n.t.items(), key=lambda kv: tuple((_akey(a), p) for a, p in kv[0]))[0][1]


def _pos_scale(d):
    """divide by |leading coefficient| when the denominator is constant (keeps every comparison)"""
    if not d.d.is_const() or d.n.is_zero():
        return d
    lead = _lead(d)
    if lead == 0:
        return d
    return Rat(d.n.scale(1 / abs(lead)), d.d)


INT_APPS = {'shape', 'floordiv', 'len', 'count', 'mod', 'int', 'size', 'match', 'ndim'}


def _nan_free(d):
    """can the compared quantity be NaN?  Not when it is built from index counters (`y@3`), extents, lengths, integer
    divisions and constants alone: integers have no NaN, so `not (a < b)` IS `b <= a` for them"""
    for a in d.atoms():
        if isinstance(a, Sym):
            if '@' not in a.name:
                return False
        elif isinstance(a, App):
            if a.name not in INT_APPS:
                return False
            if a.name in ('floordiv', 'mod', 'int') and not all(_nan_free(x) for x in a.args if isinstance(x, Rat)):
                return False
        else:
            return False
    return True


def neg_cond(c):
    if c[0] == 'not':
        return c[1]
    if c[0] == 'cmp':
        op, d = c[1], c[3]
        if op == '==':
            return ('cmp', '!=', c[2], d)
        if op == '!=':
            return ('cmp', '==', c[2], d)
        if op in ('<', '<=') and os.environ.get('XRSA_REAL_NEGATION') != '1' and not _nan_free(d):
            # IEEE: `not (a < b)` is not `b <= a` when one side is NaN - the negation of an ordered comparison stays a negation
            # (the `else` of `if a > b` is taken for NaN); evaluators decide `not` on the value of the comparison
            return ('not', c)
        if op == '<':      # not (d < 0)  ==  -d <= 0
            return cmp_cond('<=', -d, Rat.const(0))
        if op == '<=':
            return cmp_cond('<', -d, Rat.const(0))
    if c[0] == 'and':
        return ('or',) + tuple(neg_cond(x) for x in c[1:])
    if c[0] == 'or':
        return ('and',) + tuple(neg_cond(x) for x in c[1:])
    if c[0] == 'const':
        return ('const', not c[1])
    return ('not', c)


def _order_key(k):
    """canonical order of condition keys: by structural hash (the process runs with a fixed hash seed); printing
    the nested keys instead costs seconds on large kernels"""
    return hash(k)


def cond_key(c):
    if c[0] == 'cmp':
        return ('cmp', c[1], c[2])
    if c[0] in ('and', 'or'):
        return (c[0],) + tuple(sorted((cond_key(x) for x in c[1:]), key=_order_key))
    if c[0] == 'not':
        return ('not', cond_key(c[1]))
    if c[0] == 'truth':
        return ('truth', c[1].canon_key() if isinstance(c[1], Rat) else repr(c[1]))
    return c


def cond_arg(c):
    """structural form of a condition usable as an App argument (Rats stay substitutable)."""
    if c[0] == 'cmp':
        return ('cmp', c[1], c[3])
    if c[0] in ('and', 'or'):
        return (c[0],) + tuple(sorted((cond_arg(x) for x in c[1:]), key=lambda t: _order_key(cond_key_of_arg(t))))
    if c[0] == 'not':
        return ('not', cond_arg(c[1]))
    if c[0] == 'truth':
        return ('truth', c[1])
    return c


def cond_key_of_arg(t):
    from .sym import _ckey
    return _ckey(t)


def cond_repr(c):
    if c[0] == 'cmp':
        return '%r %s 0' % (c[3], c[1])
    if c[0] in ('and', 'or'):
        return '(' + (' %s ' % c[0]).join(cond_repr(x) for x in c[1:]) + ')'
    if c[0] == 'not':
        return 'not ' + cond_repr(c[1])
    if c[0] == 'truth':
        return 'truth(%r)' % (c[1],)
    return repr(c)


def flatten_and(guards):
    out = []
    for g in guards:
        if g[0] == 'and':
            out.extend(flatten_and(g[1:]))
        else:
            out.append(g)
    return out


def _live_after(fnode, s, name):
    """may `name` be read after statement s before it is assigned again?  (statement-level scan: a read anywhere in a
    following statement counts, only an unconditional top-level assignment kills)"""
    def path(block_owner, blocks):
        for blk in blocks:
            for k_, st in enumerate(blk):
                if st is s:
                    return [(block_owner, blk, k_)]
                subs = [getattr(st, a_, None) for a_ in ('body', 'orelse', 'finalbody')]
                subs = [b_ for b_ in subs if isinstance(b_, list)]
                if isinstance(st, ast.Try):
                    subs += [h.body for h in st.handlers]
                if subs and not isinstance(st, (ast.FunctionDef, ast.Lambda)):
                    p_ = path(st, subs)
                    if p_ is not None:
                        return [(block_owner, blk, k_)] + p_
        return None

    def scan(stmts):
        # -> 'live' / 'dead' / None (falls through)
        for st in stmts:
            loads = any(isinstance(x, ast.Name) and x.id == name and isinstance(x.ctx, ast.Load) for x in ast.walk(st))
            if loads:
                return 'live'
            if isinstance(st, ast.Assign) and any(isinstance(t_, ast.Name) and t_.id == name for t_ in st.targets):
                return 'dead'
            if isinstance(st, ast.Assign) and any(isinstance(t_, (ast.Tuple, ast.List)) and any(isinstance(e_, ast.Name) and e_.id == name for e_ in t_.elts)
                                                  for t_ in st.targets):
                return 'dead'
            if isinstance(st, ast.Return):
                return 'dead'
        return None
    p_ = path(fnode, [fnode.body])
    if p_ is None:
        return True
    for owner, blk, k_ in reversed(p_):
        r = scan(blk[k_ + 1:])
        if r is not None:
            return r == 'live'
        if isinstance(owner, (ast.For, ast.While)):
            # the back edge: the loop head and the statements before s in the next iteration
            if isinstance(owner, ast.While) and any(isinstance(x, ast.Name) and x.id == name for x in ast.walk(owner.test)):
                return True
            r = scan(blk[:k_])
            if r == 'live':
                return True
            if r is None:
                if isinstance(s, ast.For) and any(isinstance(x, ast.Name) and x.id == name for x in ast.walk(s.target)) and \
                        not any(isinstance(x, ast.Name) and x.id == name for x in ast.walk(s.iter)):
                    return False     # s is a for loop over this very name: re-entering it assigns the name first
                return True      # reaches s again unassigned: the loop carries it
    return False


# ----------------------------------------------------------------------------- interpreter
class Kernel:
    """Result of interpreting one function."""
    def __init__(self, func):
        self.func = func
        self.stores = []
        self.loops = []
        self.returns = []    # (value, guards)
        self.arrays = {}
        self.calls = []      # (callee text, args values, guards, node[, loops, keyword values, Func])
        self.events = []     # ('store', Store) | ('call', call record) in program order
        self.raises = []     # (guards, node)


class Interp:
    def __init__(self, prog, func, args=None, inline_depth=3, consts=None, strict=True):
        self.prog = prog
        self.func = func
        self.mod = func.module
        self.k = Kernel(func)
        self.inline_depth = inline_depth
        self.strict = strict
        self.fresh = 0
        self.env = {}
        self.guards = []
        self.loops = []
        self.consts = consts or {}
        args = args or {}
        for p in func.params + func.kwonly:
            if p in args:
                self.env[p] = args[p]
            else:
                self.env[p] = ('param', p)   # decided lazily: array if subscripted, scalar otherwise
        dfl = func.defaults()
        self.defaults = dfl

    # ------------------------------------------------------------ helpers
    def incomplete(self, node, msg):
        raise AnalysisIncomplete('%s:%s %s: %s [%s]' % (self.mod.rel, getattr(node, 'lineno', '?'),
                                                        self.func.qualname, msg, norm(node)[:80]))

    def newsym(self, base):
        self.fresh += 1
        return Rat.sym('%s#%d' % (base, self.fresh))

    def as_arr(self, v, name):
        if isinstance(v, Arr):
            return v
        if isinstance(v, tuple) and v and v[0] == 'param':
            a = Arr(v[1], 'param')
            self.env[name] = a
            self.k.arrays[a.name] = a
            return a
        # an array variable that is rebound inside a loop (allocated in the first pass, filled in the second): the
        # loop-carried symbol names an opaque array
        if isinstance(v, Rat) and v.d.is_const() and len(v.n.t) == 1:
            (mm, c), = v.n.t.items()
            at = mm[0][0] if len(mm) == 1 and mm[0][1] == 1 and c == v.d.const_value() else None
            nm = None
            if isinstance(at, Sym) and '~loop' in at.name and name is not None and at.name.startswith(name + '~'):
                nm = at.name
            elif isinstance(at, App) and name is not None and (at.name == 'loopout' or at.name in ('method:reshape', 'method:ravel')) \
                    and repr(at).count('loopout(%s,' % name):
                nm = repr(at)       # the same variable after the loop / reshaped: still an opaque array
            if nm is not None:
                a = self.k.arrays.get(nm)
                if a is None:
                    a = Arr(nm, 'carried')
                    a.var = name
                    self.k.arrays[nm] = a
                return a
        return None

    def row_alias(self, base):
        """base is the value of `arr[i]` (a read of fewer indices than the array has): the row is a view, so
        `row[k]` denotes arr[i, k] -> (Arr, index tuple), else None"""
        if not isinstance(base, Rat) or not base.d.is_const() or len(base.n.t) != 1:
            return None
        (mm, c), = base.n.t.items()
        if len(mm) != 1 or mm[0][1] != 1 or c != base.d.const_value() or not isinstance(mm[0][0], App):
            return None
        at = mm[0][0]
        if at.name not in ('read', 'cell?') or at.args[0] not in self.k.arrays:
            return None
        idx = tuple(at.args[1:]) if at.name == 'read' else tuple(at.args[1:-1])
        return self.k.arrays[at.args[0]], idx

    def as_scalar(self, v, node=None):
        if isinstance(v, Rat):
            return v
        if isinstance(v, tuple) and v and v[0] == 'param':
            return Rat.sym(v[1])
        if isinstance(v, bool):
            return Rat.const(int(v))
        if isinstance(v, (int, float, Fraction)):
            return Rat.const(_frac(v))
        if isinstance(v, Arr):
            # whole-array used as scalar field (elementwise mode not supported here)
            return Rat.atom(App('arr', [v.name]))
        if isinstance(v, View):
            return Rat.atom(App('view', [v.arr.name, _axes_key(v.axes)]))
        if isinstance(v, (Opaque, FlatAlias)):
            return Rat.atom(App('opaque', [v.text]))
        if isinstance(v, tuple) and v and v[0] in ('cmp', 'and', 'or', 'not', 'truth', 'const'):
            return Rat.atom(App('bool', [cond_arg(v)]))
        if v is None:
            return Rat.atom(App('none', []))
        if isinstance(v, str):
            return Rat.atom(App('str', [v]))
        if isinstance(v, TupleV):
            return Rat.atom(App('tuple', [self.as_scalar(x) for x in v.items]))
        if node is not None:
            self.incomplete(node, 'cannot use %r as scalar' % (v,))
        raise AnalysisIncomplete('cannot use %r as scalar' % (v,))

    # ------------------------------------------------------------ expressions
    def ev(self, e):
        m = getattr(self, 'ev_' + type(e).__name__, None)
        if m is None:
            self.incomplete(e, 'unsupported expression kind %s' % type(e).__name__)
        return m(e)

    def ev_Constant(self, e):
        v = e.value
        if isinstance(v, bool):
            return ('const', v)
        if isinstance(v, int):
            return Rat.const(v)
        if isinstance(v, float):
            return Rat.const(_frac_text(norm(e), v))
        if v is None:
            return Rat.atom(App('none', []))     # a value like any other (so that it can be loop-carried)
        if isinstance(v, str):
            return v
        self.incomplete(e, 'constant')

    def ev_Name(self, e):
        if e.id in self.env:
            v = self.env[e.id]
            return v
        if e.id in self.consts:
            return self.consts[e.id]
        t = self.prog.resolve_name(self.func.parent, self.mod, e.id)
        if isinstance(t, tuple) and t[0] == 'modvalue':
            # module-level constant
            sub = Interp(self.prog, self.func, strict=self.strict)
            sub.mod = t[1]
            sub.env = {}
            try:
                return sub.ev(t[3])
            except AnalysisIncomplete:
                return Rat.sym('global:' + e.id)
        if isinstance(t, tuple) and t[0] in ('local', 'param', 'local-multi'):
            return Rat.sym('free:' + e.id)   # closure variable
        if isinstance(t, Ext) and t.dotted in CONSTS:
            c = CONSTS[t.dotted]
            if c in ('nan', 'inf'):
                return Rat.atom(App(c, []))
            return Rat.sym(c)
        if isinstance(t, (Func, Ext)):
            return ('callable', t)
        if e.id in ('True', 'False'):
            return ('const', e.id == 'True')
        return Rat.sym('global:' + e.id)

    def ev_Attribute(self, e):
        d = self.prog.dotted(self.func.parent, self.mod, e) if isinstance(_root(e), ast.Name) and \
            _root(e).id not in self.env else None
        if isinstance(d, Ext):
            if d.dotted in CONSTS:
                c = CONSTS[d.dotted]
                if c == 'nan':
                    return Rat.atom(App('nan', []))
                if c == 'inf':
                    return Rat.atom(App('inf', []))
                return Rat.sym(c)
            return ('callable', d)
        if isinstance(d, Func):
            return ('callable', d)
        if e.attr in ('eps', 'tiny', 'resolution') and isinstance(e.value, ast.Call) and norm(e.value.func) in ('np.finfo', 'numpy.finfo') and \
                len(e.value.args) == 1:
            # machine constants are numbers: np.finfo(np.float32).eps = 2**-23, float64 2**-52
            from fractions import Fraction as _F
            t_ = norm(e.value.args[0])
            bits = {'np.float32': 23, 'numpy.float32': 23, "'f4'": 23, "'float32'": 23, 'np.float64': 52, 'numpy.float64': 52, 'float': 52,
                    "'f8'": 52, "'float64'": 52, 'np.float16': 10}.get(t_)
            if bits is not None and e.attr == 'eps':
                return Rat.const(_F(1, 2 ** bits))
        base = self.ev(e.value)
        if e.attr == 'shape':
            a = self.as_arr(base, getattr(e.value, 'id', None))
            if a is not None:
                return ('shape', a)
            if isinstance(base, View):
                return ('viewshape', base)
            if isinstance(base, Opaque) and base.struct and base.struct[0] == 'matches':
                # positions of the matching elements: a vector whose only extent is their number (`m.shape[0]` = `len(m)`)
                return TupleV([Rat.atom(App('count', [base.struct[1]]))])
        if e.attr in ('dtype',):
            a = self.as_arr(base, getattr(e.value, 'id', None))
            return ('dtype', a.name if a else repr(base))
        if e.attr in ('size',):
            a = self.as_arr(base, getattr(e.value, 'id', None))
            if a is not None:
                return Rat.atom(App('size', [a.name]))
        if e.attr in ('T', 'data', 'values', 'real'):
            return Opaque(norm(e))
        return Opaque(norm(e))

    def ev_Tuple(self, e):
        return TupleV([self.ev(x) for x in e.elts])

    def ev_List(self, e):
        return TupleV([self.ev(x) for x in e.elts])

    def ev_Set(self, e):
        return TupleV([self.ev(x) for x in e.elts])

    def ev_List(self, e):      # noqa: F811
        v = self.ev_Tuple(e)
        if isinstance(v, TupleV) and not v.items:
            v.islist = True     # an empty list that will be filled by append: `events` records which one
        return v

    def ev_GeneratorExp(self, e):
        if len(e.generators) != 1 or e.generators[0].ifs or not isinstance(e.generators[0].target, ast.Name):
            self.incomplete(e, 'comprehension form')
        it = self.ev(e.generators[0].iter)
        if isinstance(it, tuple) and it and it[0] == 'shape':
            items = [shape_sym(it[1].name, 0), shape_sym(it[1].name, 1)]
        elif isinstance(it, TupleV):
            items = it.items
        else:
            self.incomplete(e, 'comprehension over a non-tuple')
        out = []
        tv = e.generators[0].target.id
        saved = self.env.get(tv)
        for x in items:
            self.env[tv] = x
            out.append(self.ev(e.elt))
        if saved is None:
            self.env.pop(tv, None)
        else:
            self.env[tv] = saved
        return TupleV(out)

    ev_ListComp = ev_GeneratorExp

    def ev_UnaryOp(self, e):
        v = self.ev(e.operand)
        if isinstance(e.op, ast.USub):
            return -self.as_scalar(v, e)
        if isinstance(e.op, ast.UAdd):
            return self.as_scalar(v, e)
        if isinstance(e.op, ast.Not):
            return neg_cond(self.cond_of(v, e))
        if isinstance(e.op, ast.Invert) and isinstance(v, tuple) and v and v[0] in ('cmp', 'and', 'or', 'not', 'truth', 'const'):
            return neg_cond(v)          # `~mask` of an element-wise test: the element-wise negation
        self.incomplete(e, 'unary op')

    def ev_BinOp(self, e):
        va, vb = self.ev(e.left), self.ev(e.right)
        # a freshly allocated constant array scaled / shifted by a scalar is a constant array (np.ones(s) * NONE)
        for arr, other, left in ((va, vb, True), (vb, va, False)):
            if isinstance(arr, Arr) and arr.name.startswith('alloc#') and not getattr(arr, 'var', None) and \
                    (arr.init in ('zeros', 'ones') or (isinstance(arr.init, tuple) and arr.init[0] == 'full')) and \
                    isinstance(other, Rat) and isinstance(e.op, (ast.Mult, ast.Add, ast.Sub)) and (left or not isinstance(e.op, ast.Sub)):
                base = Rat.const(0) if arr.init == 'zeros' else Rat.const(1) if arr.init == 'ones' else arr.init[1]
                v = base * other if isinstance(e.op, ast.Mult) else base + other if isinstance(e.op, ast.Add) else base - other
                self.fresh += 1
                new = Arr('alloc#%d' % self.fresh, ('full', v), shape=arr.shape, dtype=arr.dtype, like=arr.like)
                if hasattr(arr, 'shape_like'):
                    new.shape_like = arr.shape_like
                return new
        # shapes and tuples of scalars combine elementwise (np.array(a.shape) - np.array(b.shape)); 2-D shapes assumed
        def _tup(v):
            if isinstance(v, tuple) and v and v[0] == 'shape' and isinstance(v[1], Arr):
                return TupleV([shape_sym(v[1].name, 0), shape_sym(v[1].name, 1)])
            return v
        ta, tb = _tup(va), _tup(vb)
        if isinstance(ta, TupleV) and isinstance(tb, TupleV) and len(ta.items) == len(tb.items) and \
                isinstance(e.op, (ast.Add, ast.Sub)) and all(isinstance(x, Rat) for x in ta.items + tb.items) and \
                (ta is not va or tb is not vb):
            return TupleV([(x + y) if isinstance(e.op, ast.Add) else (x - y) for x, y in zip(ta.items, tb.items)])
        if isinstance(ta, TupleV) and isinstance(vb, Rat) and ta is not va and isinstance(e.op, (ast.FloorDiv, ast.Sub, ast.Add)) and \
                all(isinstance(x, Rat) for x in ta.items):
            va = ta
        a = self.as_scalar(va, e)
        b = self.as_scalar(vb, e)
        op = e.op
        if isinstance(op, ast.Add):
            return a + b
        if isinstance(op, ast.Sub):
            return a - b
        if isinstance(op, ast.Mult):
            return a * b
        if isinstance(op, ast.Div):
            if b.n.is_zero():
                return Rat.atom(App('div0', [a]))
            return a / b
        if isinstance(op, ast.Pow):
            if b.is_const():
                c = b.const_value()
                if c.denominator == 1 and abs(c) <= 8:
                    if c < 0 and a.n.is_zero():
                        return Rat.atom(App('div0', [a]))
                    return a ** int(c)
                if c == Fraction(1, 2):
                    return self.app('sqrt', [a])
            return self.app('pow', [a, b])
        if isinstance(op, ast.FloorDiv):
            if a.is_const() and b.is_const() and b.const_value() != 0:
                return Rat.const(a.const_value() // b.const_value())
            return Rat.atom(App('floordiv', [a, b]))
        if isinstance(op, ast.Mod):
            if a.is_const() and b.is_const() and b.const_value() != 0:
                return Rat.const(a.const_value() % b.const_value())
            return Rat.atom(App('mod', [a, b]))
        if isinstance(op, (ast.BitAnd, ast.BitOr, ast.BitXor, ast.LShift, ast.RShift)):
            return Rat.atom(App(type(op).__name__, [a, b]))
        self.incomplete(e, 'binary op')

    def app(self, name, args):
        """Apply canonical elementwise function with light algebraic normalisation."""
        if name == 'id':
            # float('inf') / float('nan') / float('-inf'): the constants np.inf / np.nan spell
            a0 = args[0]
            at = next(iter(a0.atoms()), None) if isinstance(a0, Rat) else None
            if isinstance(at, App) and at.name == 'str' and len(at.args) == 1 and isinstance(at.args[0], str) and a0 == Rat.atom(at):
                t_ = at.args[0].strip().lower()
                if t_ in ('inf', '+inf', 'infinity', '+infinity'):
                    return Rat.atom(App('inf', []))
                if t_ in ('-inf', '-infinity'):
                    return -Rat.atom(App('inf', []))
                if t_ == 'nan':
                    return Rat.atom(App('nan', []))
            return args[0]
        if name == 'square':
            return args[0] * args[0]
        if name == 'radians':
            return args[0] * Rat.sym('pi') / Rat.const(180)
        if name == 'degrees':
            return args[0] * Rat.const(180) / Rat.sym('pi')
        if name == 'hypot':
            return self.app('sqrt', [args[0] * args[0] + args[1] * args[1]])
        if name == 'int':
            a = args[0]
            if a.is_const():
                c = a.const_value()
                return Rat.const(int(c))
            # int(k/2) for a shape extent == k//2  (non-negative)
            if a.d.is_const() and len(a.n.t) == 1:
                (m, c), = a.n.t.items()
                if c.numerator == 1 and c.denominator > 1 and len(m) == 1 and m[0][1] == 1 and \
                        _nonneg_atom(m[0][0]):
                    return Rat.atom(App('floordiv', [Rat.atom(m[0][0]), Rat.const(c.denominator)]))
            return Rat.atom(App('int', [a]))
        if name == 'abs' and args[0].is_const():
            return Rat.const(abs(args[0].const_value()))
        if name == 'sqrt' and args[0].is_const():
            c = args[0].const_value()
            r = _exact_sqrt(c)
            if r is not None:
                return Rat.const(r)
        if name == 'pow':
            return Rat.atom(App('pow', args))
        if name in ODD_FUNCS and len(args) == 1 and _lead(args[0]) < 0:
            return -Rat.atom(App(name, [-args[0]]))
        if name in EVEN_FUNCS and len(args) == 1 and _lead(args[0]) < 0:
            return Rat.atom(App(name, [-args[0]]))
        if name == 'arctan2' and args[0].d.is_const() and args[1].d.is_const():
            # arctan2 is invariant under a common positive scale
            ref = args[0] if not args[0].n.is_zero() else args[1]
            lead = _lead(ref)
            if lead != 0:
                k = Rat.const(1 / abs(lead))
                args = [args[0] * k, args[1] * k]
        return Rat.atom(App(name, args))

    def ev_Compare(self, e):
        left = self.ev(e.left)
        conds = []
        for op, rhs in zip(e.ops, e.comparators):
            right = self.ev(rhs)
            opn = {ast.Eq: '==', ast.NotEq: '!=', ast.Lt: '<', ast.LtE: '<=', ast.Gt: '>', ast.GtE: '>='}.get(type(op))
            if opn is None:
                if isinstance(op, (ast.In, ast.NotIn)) and isinstance(right, TupleV) and right.items and \
                        all(isinstance(x, Rat) for x in right.items) and isinstance(left, Rat):
                    # membership in a literal collection of scalars: a disjunction of equalities
                    parts = tuple(cmp_cond('==', left, x) for x in right.items)
                    c = parts[0] if len(parts) == 1 else ('or',) + parts
                    conds.append(c if isinstance(op, ast.In) else neg_cond(c))
                    left = right
                    continue
                if isinstance(op, (ast.In, ast.NotIn)):
                    c = ('truth', Rat.atom(App('in', [self.as_scalar(left, e), self.as_scalar(right, e)])))
                    conds.append(c if isinstance(op, ast.In) else neg_cond(c))
                    left = right
                    continue
                if isinstance(op, (ast.Is, ast.IsNot)):
                    c = ('truth', Rat.atom(App('is', [self.as_scalar(left, e), self.as_scalar(right, e)])))
                    conds.append(c if isinstance(op, ast.Is) else neg_cond(c))
                    left = right
                    continue
                self.incomplete(e, 'comparison operator')
            if isinstance(left, TupleV) and isinstance(right, TupleV) and len(left.items) == len(right.items) and \
                    opn in ('==', '!=') and left.items:
                # tuple equality is componentwise
                parts = tuple(cmp_cond('==', self.as_scalar(a, e), self.as_scalar(b, e)) for a, b in zip(left.items, right.items))
                c = parts[0] if len(parts) == 1 else ('and',) + parts
                conds.append(c if opn == '==' else neg_cond(c))
                left = right
                continue
            conds.append(cmp_cond(opn, self.as_scalar(left, e), self.as_scalar(right, e)))
            left = right
        return conds[0] if len(conds) == 1 else ('and',) + tuple(conds)

    def index_cond(self, c, j):
        def f(a):
            if isinstance(a, App) and a.name == 'arr' and a.args and a.args[0] in self.k.arrays:
                return self.read(self.k.arrays[a.args[0]], (j,))
            return None
        if c[0] == 'cmp':
            d = subst(c[3] if len(c) > 3 else c[2], f)
            return cmp_cond(c[1], d, Rat.const(0))
        if c[0] in ('and', 'or'):
            return (c[0],) + tuple(self.index_cond(x, j) for x in c[1:])
        if c[0] == 'not':
            return neg_cond(self.index_cond(c[1], j))
        if c[0] == 'truth':
            return ('truth', subst(c[1], f)) if isinstance(c[1], Rat) else c
        return c

    def ev_BoolOp(self, e):
        cs = [self.cond_of(self.ev(v), e) for v in e.values]
        return ('and' if isinstance(e.op, ast.And) else 'or',) + tuple(cs)

    def ev_IfExp(self, e):
        c = self.cond_of(self.ev(e.test), e)
        if c[0] == 'const':
            return self.ev(e.body if c[1] else e.orelse)
        a = self.as_scalar(self.ev(e.body), e)
        b = self.as_scalar(self.ev(e.orelse), e)
        if a == b:
            return a
        return Rat.atom(App('ite', [cond_arg(c), a, b]))

    def cond_of(self, v, node):
        if isinstance(v, tuple) and v and v[0] in ('cmp', 'and', 'or', 'not', 'truth', 'const'):
            return v
        return ('truth', self.as_scalar(v, node))

    def ev_Subscript(self, e):
        base = self.ev(e.value)
        if isinstance(base, tuple) and base and base[0] == 'shape':
            if isinstance(e.slice, ast.Slice):
                return ('shape-slice', base[1], norm(e.slice))
            i = self.ev(e.slice)
            if isinstance(i, Rat) and i.is_const():
                return _extent(base[1], int(i.const_value()))
            self.incomplete(e, 'shape index')
        if isinstance(base, tuple) and base and base[0] == 'shape-slice':
            self.incomplete(e, 'index of a shape slice')
        if isinstance(base, TupleV):
            i = self.ev(e.slice)
            if isinstance(i, Rat) and i.is_const():
                return base.items[int(i.const_value())]
            return Rat.atom(App('tupidx', [self.as_scalar(base), self.as_scalar(i)]))
        name = getattr(e.value, 'id', None)
        arr = self.as_arr(base, name)
        if arr is None and isinstance(base, View):
            # index into a view: a[y][x] chains or window[i]
            idx = self.index_list(e.slice)
            axes = list(base.axes)
            free = [k for k, ax in enumerate(axes) if ax[0] == 'slice']
            if len(idx) > len(free):
                self.incomplete(e, 'too many indices for view')
            for k, ix in zip(free, idx):
                lo = axes[k][1]
                if ix[0] == 'idx':
                    axes[k] = ('idx', (lo if lo is not None else Rat.const(0)) + ix[1])
                else:
                    self.incomplete(e, 'slice of slice')
            if all(ax[0] == 'idx' for ax in axes):
                return self.read(base.arr, tuple(ax[1] for ax in axes))
            return View(base.arr, axes)
        if arr is None:
            if isinstance(base, tuple) and base and base[0] in ('cmp', 'and', 'or', 'not', 'truth') and \
                    not isinstance(e.slice, (ast.Slice, ast.Tuple)):
                # element j of an element-wise condition over arrays: the same condition on the arrays' elements at j
                j = self.as_scalar(self.ev(e.slice), e)
                return self.index_cond(base, j)
            if isinstance(base, Rat):
                ra = self.row_alias(base)
                if ra is not None:
                    ix = self.index_list(e.slice)
                    if all(x[0] == 'idx' for x in ix):
                        return self.read(ra[0], ra[1] + tuple(x[1] for x in ix))
                # subscript of scalar-like unknown (e.g. opaque tuple)
                i = self.ev(e.slice)
                return Rat.atom(App('getitem', [base, self.as_scalar(i, e)]))
            if isinstance(base, Opaque):
                if base.struct:
                    i = self.ev(e.slice)
                    if base.struct[0] == 'where' and isinstance(i, Rat) and i.is_const() and i.const_value() == 0:
                        return Opaque(norm(e), ('matches', base.struct[1]))
                    if base.struct[0] == 'matches' and isinstance(i, Rat):
                        return Rat.atom(App('match', [base.struct[1], i]))
                    if base.struct[0] == 'concat' and isinstance(i, Rat) and i.is_const() and i.const_value() >= 0:
                        # np.concatenate((literal scalars, slice of an array)) at a constant position
                        k_ = int(i.const_value())
                        for part in base.struct[1]:
                            if isinstance(part, TupleV):
                                if k_ < len(part.items):
                                    return part.items[k_]
                                k_ -= len(part.items)
                            elif isinstance(part, View) and len(part.axes) == 1 and part.axes[0][0] == 'slice':
                                lo = part.axes[0][1] if part.axes[0][1] is not None else Rat.const(0)
                                return self.read(part.arr, (lo + Rat.const(k_),))
                            else:
                                break
                return Opaque(norm(e))
            self.incomplete(e, 'subscript base %r' % (base,))
        idx = self.index_list(e.slice)
        if all(ix[0] == 'idx' for ix in idx):
            if arr.shape is not None and not (isinstance(arr.shape, tuple) and arr.shape and arr.shape[0] == 'shape-of') and len(idx) < len(arr.shape):
                return View(arr, list(idx) + [('slice', None, None)] * (len(arr.shape) - len(idx)))
            return self.read(arr, tuple(ix[1] for ix in idx))
        return View(arr, idx)

    def index_list(self, s):
        items = s.elts if isinstance(s, ast.Tuple) else [s]
        out = []
        for it in items:
            if isinstance(it, ast.Slice):
                lo = self.as_scalar(self.ev(it.lower), it) if it.lower is not None else None
                hi = self.as_scalar(self.ev(it.upper), it) if it.upper is not None else None
                if it.step is not None:
                    self.incomplete(it, 'slice step')
                out.append(('slice', lo, hi))
            else:
                v = self.ev(it)
                if isinstance(v, TupleV):
                    out.append(('fancy', tuple(self.as_scalar(x, it) for x in v.items)))
                else:
                    out.append(('idx', self.as_scalar(v, it)))
        return out

    def _swept_value(self, arr, idx):
        """store-to-load forwarding across loop nests: a scratch array filled cell by cell by an earlier, completed nest
        (`A[y, x] = e(y, x)` for every (y, x) of its ranges, the only store A ever gets) and read now at the loop variables of a
        nest over the same ranges holds e at those indices.  None when that is not the situation."""
        sw = getattr(self.k, 'swept', {}).get(arr.name)
        if not sw or not all(isinstance(i, Rat) for i in idx):
            return None
        st, chain = sw
        if len(idx) != len(chain):
            return None
        last = [s_ for s_ in self.k.stores if s_.arr.name == arr.name and not (s_.idx == 'all' and not s_.loops and s_.seq < st.seq)]
        if len(last) != 1 or last[0] is not st:
            return None
        names = {str(a.args[0]).strip("'") for a in walk_atoms(st.value) if isinstance(a, App) and a.name in ('read', 'cell?', 'getitem')}
        if any(s_.seq > st.seq and s_.arr.name in names for s_ in self.k.stores):
            return None         # what the stored expression reads has changed since
        rep = {}
        for p_, i_ in enumerate(idx):
            L = next((l_ for l_ in self.loops if i_ == Rat.sym(l_.var)), None)
            D = chain[p_]
            if L is None or L.kind != 'range' or L.lo != D.lo or L.hi != D.hi or L.step != D.step or D.var in rep:
                return None
            rep[D.var] = i_
        return subst(st.value, lambda a: rep.get(a.name) if isinstance(a, Sym) else None)

    def _note_swept(self, loop):
        """after an outermost loop nest has completed: the scratch arrays it defined cell by cell (see _swept_value)"""
        sw = self.k.__dict__.setdefault('swept', {})
        for st in self.k.stores:
            if not st.loops or st.loops[0] is not loop or st.arr.init == 'param' or st.idx == 'all':
                continue
            chain = st.loops
            ok = isinstance(st.value, Rat) and isinstance(st.idx, tuple) and len(st.idx) == len(chain) and \
                all(isinstance(i_, Rat) and i_ == Rat.sym(l_.var) and l_.kind == 'range' and l_.step == Rat.const(1) for i_, l_ in zip(st.idx, chain)) and \
                len(st.guards) == getattr(loop, 'gdepth', -1) and \
                not any(o_ is not st and o_.arr.name == st.arr.name and not (o_.idx == 'all' and not o_.loops and o_.seq < st.seq) for o_ in self.k.stores)
            if ok:
                sw[st.arr.name] = (st, chain)
            else:
                sw.pop(st.arr.name, None)

    def read(self, arr, idx):
        """element read with store-to-load forwarding for the same symbolic index in straight-line code"""
        fw = self._swept_value(arr, idx)
        if fw is not None:
            return fw
        cells = getattr(self, 'cells', None)
        if cells:
            key = (arr.name, tuple(i.canon_key() for i in idx))
            hit = cells.get(key)
            if hit is not None:
                val, g, nloops = hit
                if nloops == len(self.loops) and tuple(cond_key(x) for x in self.guards[:len(g)]) == g and isinstance(val, Rat):
                    return val
                # the cell was (maybe) overwritten on another path: its content is not the initial one
                self.fresh += 1
                return Rat.atom(App('cell?', [arr.name] + list(idx) + [Rat.const(self.fresh)]))
            if any(k[0] == arr.name for k in cells):
                # another index of this array was stored: it may be the same cell
                other = [k for k in cells if k[0] == arr.name]
                if any(_may_alias(k[1], key[1]) for k in other):
                    self.fresh += 1
                    return Rat.atom(App('cell?', [arr.name] + list(idx) + [Rat.const(self.fresh)]))
        return Rat.atom(App('read', [arr.name] + list(idx)))

    def ev_Call(self, e):
        fv = None
        # method calls on values
        if isinstance(e.func, ast.Attribute):
            root = _root(e.func)
            is_local = isinstance(root, ast.Name) and root.id in self.env
            d = None if is_local else self.prog.dotted(self.func.parent, self.mod, e.func)
            if d is None:
                return self.method_call(e)
            fv = d
        else:
            fv = self.ev(e.func)
            if isinstance(fv, tuple) and fv and fv[0] == 'callable':
                fv = fv[1]
            elif isinstance(e.func, ast.Name) and e.func.id in BUILTINS and e.func.id not in self.env:
                fv = Ext('builtins.' + e.func.id)
            elif isinstance(fv, tuple) and fv and fv[0] == 'param':
                # calling a function-valued parameter (user reducer)
                args = [self.ev(a) for a in e.args]
                r = Rat.atom(App('call:' + fv[1], [self.arg_key(a) for a in args]))
                self.k.calls.append((fv[1], args, list(self.guards), e))
                return r
            else:
                self.incomplete(e, 'call of %r' % (fv,))
        if isinstance(fv, Ext):
            return self.ext_call(fv, e)
        if isinstance(fv, Func):
            return self.func_call(fv, e)
        self.incomplete(e, 'call target %r' % (fv,))

    def arg_key(self, a):
        if isinstance(a, Arr):
            return Rat.atom(App('arr', [a.name]))
        return self.as_scalar(a)

    def method_call(self, e):
        obj = self.ev(e.func.value)
        meth = e.func.attr
        name = getattr(e.func.value, 'id', None)
        arr = self.as_arr(obj, name) if not isinstance(obj, (Rat, View, TupleV, Opaque)) else None
        if arr is not None:
            if meth == 'astype':
                a = Arr(arr.name, arr.init, arr.shape, dtype=norm(e.args[0]) if e.args else None, like=arr)
                a.cast_of = arr
                return a if False else arr_alias(arr, a)
            if meth in ('copy',):
                return arr
            if meth in ('fill',):
                v = self.as_scalar(self.ev(e.args[0]), e)
                self.store(arr, 'all', v, e)
                return None
            if meth in ('min', 'max', 'sum', 'mean', 'std', 'var', 'ptp', 'any', 'all'):
                return Rat.atom(App('reduce:' + meth, [Rat.atom(App('arr', [arr.name]))]))
            if meth in ('ravel', 'reshape') and arr.init != 'param' and arr.like is None and getattr(arr, 'var', None) and \
                    isinstance(arr.shape, (list, tuple)) and getattr(arr, 'alloc_node', None) is not None and \
                    not any(k_.arg == 'order' for k_ in arr.alloc_node.keywords) and not e.keywords and \
                    ((meth == 'ravel' and not e.args) or (meth == 'reshape' and len(e.args) == 1 and norm(e.args[0]) in ('-1', '(-1,)'))):
                return FlatAlias(arr, norm(e))
            if meth in ('ravel', 'flatten', 'reshape'):
                return Opaque(norm(e))
        if isinstance(obj, View) and meth in ('min', 'max', 'sum', 'mean', 'std', 'var', 'any', 'all'):
            return Rat.atom(App('reduce:' + meth, [self.as_scalar(obj)]))
        if meth == 'append':
            vals = [self.ev(a) for a in e.args]
            self.k.calls.append(('append', [obj] + vals, list(self.guards), e))
            # which list: `name.append(v)` or `name[index].append(v)` (a list of lists)
            tv = e.func.value
            target = None
            if isinstance(tv, ast.Name):
                target = (tv.id, None)
            elif isinstance(tv, ast.Subscript) and isinstance(tv.value, ast.Name):
                try:
                    target = (tv.value.id, self.as_scalar(self.ev(tv.slice)))
                except AnalysisIncomplete:
                    target = (tv.value.id, 'unknown')
            self.k.events.append(('append', (target, vals, list(self.guards), e, list(self.loops))))
            return None
        args = [self.arg_key(self.ev(a)) for a in e.args]
        return Rat.atom(App('method:' + meth, [self.arg_key(obj) if obj is not None else Rat.const(0)] + args))

    def ext_call(self, ext, e):
        dn = ext.dotted
        short = dn.split('.')[-1]
        args_nodes = e.args
        if dn.startswith(EXT_MODS) and short in ALLOCS:
            return self.alloc(short, e)
        if dn in ('numpy.concatenate', 'numpy.hstack') and len(args_nodes) == 1 and isinstance(args_nodes[0], (ast.Tuple, ast.List)):
            try:
                parts = [self.ev(a) for a in args_nodes[0].elts]
            except AnalysisIncomplete:
                parts = None
            if parts is not None and all(isinstance(p, (TupleV, View)) for p in parts):
                return Opaque(norm(e), ('concat', parts))
        if dn in ('builtins.range', 'numba.prange', 'builtins.len', 'builtins.enumerate', 'builtins.zip'):
            args = [self.ev(a) for a in args_nodes]
            if short == 'len':
                a = args[0]
                if isinstance(a, Arr):
                    return shape_sym(a.name, 0)
                if isinstance(a, TupleV):
                    return Rat.const(len(a.items))
                if isinstance(a, Opaque) and a.struct and a.struct[0] == 'matches':
                    return Rat.atom(App('count', [a.struct[1]]))
                return Rat.atom(App('len', [self.as_scalar(a, e)]))
            return ('iter', short, args)
        if dn in ('builtins.max', 'builtins.min', 'numpy.maximum', 'numpy.minimum') and len(args_nodes) == 2:
            a = self.as_scalar(self.ev(args_nodes[0]), e)
            b = self.as_scalar(self.ev(args_nodes[1]), e)
            nm = 'max' if 'max' in short else 'min'
            if a.is_const() and b.is_const():
                return Rat.const(max(a.const_value(), b.const_value()) if nm == 'max'
                                 else min(a.const_value(), b.const_value()))
            ka, kb = sorted([a, b], key=lambda r: repr(r.canon_key()))
            return Rat.atom(App(nm, [ka, kb]))
        if dn.startswith(EXT_MODS) and short in UFUNCS:
            args = [self.as_scalar(self.ev(a), e) for a in args_nodes]
            return self.app(UFUNCS[short], args)
        if dn.startswith('numpy.') and short.startswith('nan') or short in (
                'sum', 'mean', 'std', 'var', 'median', 'ptp', 'amax', 'amin', 'max', 'min', 'any', 'all',
                'argmin', 'argmax'):
            args = [self.arg_key(self.ev(a)) for a in args_nodes]
            return Rat.atom(App('reduce:' + short, args))
        if dn in ('numpy.where', 'numpy.nonzero'):
            # np.nonzero(c) is np.where(c) with one argument
            args = [self.ev(a) for a in args_nodes]
            if len(args) == 3 and short == 'where':
                c = self.cond_of(args[0], e)
                return Rat.atom(App('ite', [cond_arg(c), self.as_scalar(args[1], e), self.as_scalar(args[2], e)]))
            if len(args) == 1 and _is_cond(args[0]):
                # index arrays of the elements satisfying an elementwise condition (whole arrays stand for their elements)
                return Opaque(norm(e), ('where', cond_arg(args[0])))
            return Opaque(norm(e))
        if dn in ('numpy.array', 'numpy.asarray'):
            v = self.ev(args_nodes[0])
            return v
        if dn in ('builtins.bool',):
            return self.cond_of(self.ev(args_nodes[0]), e)
        if dn in ('builtins.isinstance', 'builtins.print', 'builtins.str', 'builtins.type', 'builtins.set',
                  'builtins.list', 'builtins.tuple', 'builtins.sorted', 'builtins.dict', 'builtins.ValueError',
                  'builtins.TypeError', 'builtins.IndexError', 'builtins.RuntimeError'):
            args = [self.arg_key(self.ev(a)) for a in args_nodes]
            return Rat.atom(App('ext:' + short, args))
        if self.strict:
            self.incomplete(e, 'unmodelled external call %s' % dn)
        args = []
        for a in args_nodes:
            try:
                args.append(self.arg_key(self.ev(a)))
            except AnalysisIncomplete:
                args.append(Rat.atom(App('opaque', [norm(a)])))
        return Rat.atom(App('ext:' + dn, args))

    def alloc(self, short, e):
        self.fresh += 1
        kw = {k.arg: k.value for k in e.keywords}
        name = 'alloc#%d' % self.fresh
        if short.endswith('_like'):
            like = self.ev(e.args[0])
            like = self.as_arr(like, getattr(e.args[0], 'id', None))
            init = {'zeros_like': 'zeros', 'empty_like': 'empty', 'ones_like': 'ones', 'full_like': 'full'}[short]
            a = Arr(name, init, shape=None, dtype=norm(kw['dtype']) if 'dtype' in kw else ('like', like.name if like else '?'),
                    like=like)
            if short == 'full_like':
                a.init = ('full', self.as_scalar(self.ev(e.args[1]), e))
            a.shape_like = like
            a.alloc_node = e
            return a
        shape_node = e.args[0] if e.args else kw.get('shape')
        shp = self.ev(shape_node)
        if isinstance(shp, TupleV):
            shape = [self.as_scalar(x, e) for x in shp.items]
        elif isinstance(shp, tuple) and shp and shp[0] == 'shape':
            shape = ('shape-of', shp[1])
        else:
            shape = [self.as_scalar(shp, e)]
        dtype = None
        if 'dtype' in kw:
            dtype = norm(kw['dtype'])
            dn_ = kw['dtype']
            if isinstance(dn_, ast.Attribute) and dn_.attr == 'dtype' and isinstance(dn_.value, ast.Name) and \
                    isinstance(self.env.get(dn_.value.id), Arr) and isinstance(self.env[dn_.value.id].dtype, str) and \
                    self.env[dn_.value.id].init != 'param':
                dtype = self.env[dn_.value.id].dtype       # `dtype=out.dtype` of a local array allocated with a dtype of its own
        elif short != 'full' and len(e.args) > 1:
            dtype = norm(e.args[1])
        elif short == 'full' and len(e.args) > 2:
            dtype = norm(e.args[2])
        a = Arr(name, short, shape=shape, dtype=dtype)
        a.alloc_node = e
        if short == 'full':
            fv = e.args[1] if len(e.args) > 1 else kw.get('fill_value')
            a.init = ('full', self.as_scalar(self.ev(fv), e))
            if a.init[1] == Rat.atom(App('nan', [])):
                a.init = 'nan'
        return a

    def func_call(self, f, e):
        """Inline a package function (bounded depth) when it is a simple expression helper; else opaque."""
        args = [self.ev(a) for a in e.args]
        kws = {k.arg: self.ev(k.value) for k in e.keywords if k.arg}
        # keyword arguments of a package function are put in their parameter positions (as far as the positions are
        # contiguous): `f(a, c=z, b=y)` is recorded and inlined exactly like `f(a, y, z)`
        if not f.is_lambda and not (f.vararg or f.kwarg) and kws and all(k_ in f.params for k_ in kws) and \
                not any(isinstance(a, ast.Starred) for a in e.args):
            full = list(args)
            rest = dict(kws)
            for p_ in f.params[len(args):]:
                if p_ in rest:
                    full.append(rest.pop(p_))
                else:
                    break
            args, kws = full, rest
        inl = getattr(self, 'inline_all', None)
        if inl and self.inline_depth > 0 and not f.is_lambda and f is not self.func and \
                f.qualname not in getattr(self, 'inline_stack', ()) and not (f.vararg or f.kwarg) and inl(f) and \
                sum(1 for x in ast.walk(f.node) if isinstance(x, ast.stmt)) <= 400:
            r = self._inline_shared(f, args, kws, e)
            if r is not NotImplemented:
                return r
        if self.inline_depth > 0 and not f.is_lambda or (f.is_lambda and self.inline_depth > 0):
            bind = {}
            for p, a in zip(f.params, args):
                bind[p] = a
            for kname, v in kws.items():
                bind[kname] = v
            sub = Interp(self.prog, f, bind, self.inline_depth - 1, strict=self.strict)
            sub.fresh = self.fresh + 1000
            for p, dnode in f.defaults().items():
                if p not in bind:
                    try:
                        sub.env[p] = sub.ev(dnode)
                    except AnalysisIncomplete:
                        pass
            try:
                sub.run()
            except AnalysisIncomplete:
                sub = None
            if sub is not None and not sub.k.stores and len(sub.k.returns) >= 1:
                self.fresh = sub.fresh
                val = merge_returns(sub.k.returns, self)
                if val is not None:
                    # inlined: remember which helper produced this value from which arguments
                    if not hasattr(self.k, 'inlined'):
                        self.k.inlined = []
                    self.k.inlined.append((f, args, kws, val, e, sub.k))
                    self.k.inlined.extend(getattr(sub.k, 'inlined', []))
                    return val
            if sub is not None and sub.k.stores:
                # callee writes arrays: record as call with summary
                pass
        rec = (f.qualname, args, list(self.guards), e, list(self.loops), kws, f)
        self.k.calls.append(rec)
        self.k.events.append(('call', rec))
        return Rat.atom(App('call:' + f.qualname, [self.arg_key(a) for a in args] +
                            [self.arg_key(v) for _, v in sorted(kws.items())]))

    @staticmethod
    def _single_exit(fnode):
        """body of a function whose early `return c` statements (c one boolean constant) sit inside loops / ifs and whose last
        statement returns the other constant, rewritten with ONE result flag: `__r = not c` first, every early return becomes
        `__r = c` (+ `break` inside a loop), whatever follows a construct that may have set the flag runs under `if __r != c`,
        and the function ends with `return __r`.  A search helper that returns early then reads as the flag-and-break loop it
        abbreviates.  None when the function is not of that shape."""
        import copy
        body = [s_ for s_ in fnode.body if not (isinstance(s_, ast.Expr) and isinstance(s_.value, ast.Constant))]
        if not body or not isinstance(body[-1], ast.Return) or not isinstance(body[-1].value, ast.Constant) or \
                not isinstance(body[-1].value.value, bool):
            return None
        final = body[-1].value.value
        early = [x for s_ in body[:-1] for x in ast.walk(s_) if isinstance(x, ast.Return)]
        in_loop = [x for s_ in body[:-1] if isinstance(s_, (ast.For, ast.While)) for x in ast.walk(s_) if isinstance(x, ast.Return)]
        if not in_loop or not all(isinstance(x.value, ast.Constant) and x.value.value is (not final) for x in early):
            return None
        if any(isinstance(x, (ast.FunctionDef, ast.Lambda, ast.Try, ast.With)) for s_ in body for x in ast.walk(s_)):
            return None
        R = '__r%d' % fnode.lineno
        c = not final

        def setr(at):
            return ast.copy_location(ast.Assign(targets=[ast.Name(id=R, ctx=ast.Store())], value=ast.Constant(value=c)), at)

        def unset_test(at):
            t = ast.Name(id=R, ctx=ast.Load())
            return ast.copy_location(ast.UnaryOp(op=ast.Not(), operand=t) if c else t, at)

        def may_set(s_):
            return any(isinstance(x, ast.Return) for x in ast.walk(s_))

        def xf(stmts, loop_depth):
            out = []
            for i_, s_ in enumerate(stmts):
                if isinstance(s_, ast.Return):
                    out.append(setr(s_))
                    if loop_depth:
                        out.append(ast.copy_location(ast.Break(), s_))
                    return out
                if not may_set(s_):
                    out.append(copy.deepcopy(s_))
                    continue
                s2 = copy.copy(s_)
                if isinstance(s_, ast.If):
                    s2.body = xf(s_.body, loop_depth)
                    s2.orelse = xf(s_.orelse, loop_depth)
                elif isinstance(s_, (ast.For, ast.While)):
                    if s_.orelse:
                        raise ValueError('loop else')
                    s2.body = xf(s_.body, loop_depth + 1)
                else:
                    raise ValueError('statement kind')
                out.append(s2)
                rest = xf(stmts[i_ + 1:], loop_depth)
                if loop_depth and isinstance(s_, (ast.For, ast.While)):
                    # the flag set in an inner loop also leaves the enclosing one
                    out.append(ast.copy_location(ast.If(test=(ast.Name(id=R, ctx=ast.Load()) if c else ast.UnaryOp(op=ast.Not(), operand=ast.Name(id=R, ctx=ast.Load()))),
                                                        body=[ast.Break()], orelse=[]), s_))
                if rest:
                    out.append(ast.copy_location(ast.If(test=unset_test(s_), body=rest, orelse=[]), s_))
                return out
            return out
        try:
            new = xf(body[:-1], 0)
        except ValueError:
            return None
        init = ast.copy_location(ast.Assign(targets=[ast.Name(id=R, ctx=ast.Store())], value=ast.Constant(value=final)), body[0])
        ret = ast.copy_location(ast.Return(value=ast.Name(id=R, ctx=ast.Load())), body[-1])
        res = [init] + new + [ret]
        for s_ in res:
            ast.fix_missing_locations(s_)
        return res

    def _inline_shared(self, f, args, kws, e):
        """execute a package function in place, on this kernel: its loops, stores, calls and events are recorded here
        (under the current guards and loops), its local names live in their own environment, its return value(s) come
        back merged.  A kernel split into phases / helpers then reads exactly like the unsplit one."""
        bind = dict(zip(f.params, args))
        for kname, v in kws.items():
            if kname not in f.params + f.kwonly or kname in bind:
                return NotImplemented
            bind[kname] = v
        sub = Interp(self.prog, f, bind, self.inline_depth - 1, strict=self.strict)
        sub.k = self.k
        sub.guards = list(self.guards)
        sub.loops = list(self.loops)
        sub.fresh = self.fresh
        sub.inline_all = self.inline_all
        sub.inline_procedures = getattr(self, 'inline_procedures', False)
        sub.inline_stack = tuple(getattr(self, 'inline_stack', ())) + (self.func.qualname,)
        sub.ret_capture = []
        if hasattr(self, 'cells'):
            sub.cells = self.cells
        for name_ in ('cont_stack', 'break_stack'):
            pass
        for p, dnode in f.defaults().items():
            if p not in bind:
                try:
                    sub.env[p] = sub.ev(dnode)
                except AnalysisIncomplete:
                    pass
        base = len(self.guards)
        body = self._single_exit(f.node) or f.node.body
        sub.block(body)
        self.fresh = sub.fresh
        if hasattr(sub, 'cells'):
            self.cells = sub.cells
        rets = [(v, g[base:]) for v, g in sub.ret_capture]
        if not rets:
            return Rat.atom(App('none', []))
        if len(rets) == 1:
            return rets[0][0]
        val = merge_returns(rets, self)
        if val is None:
            self.incomplete(e, 'several return values of %s cannot be merged' % f.qualname)
        return val

    # ------------------------------------------------------------ statements
    def run(self):
        self.block(self.func.body)
        return self.k

    def block(self, stmts):
        """Execute statements.  Returns True if the block always terminates (return/continue/break/raise), False if
        it always falls through, or ('guard-rest', cond) if control falls through only under cond."""
        for i, s in enumerate(stmts):
            term = self.stmt(s)
            if term is True:
                return True
            if isinstance(term, tuple) and term[0] == 'guard-rest':
                # the rest of this block runs under the fall-through condition
                self.guards.append(term[1])
                try:
                    t2 = self.block(stmts[i + 1:])
                finally:
                    self.guards.pop()
                if t2 is True:
                    return True
                if t2 is False:
                    return ('guard-rest', term[1])
                return ('guard-rest', _conj(term[1], t2[1]))
        return False

    def stmt(self, s):
        m = getattr(self, 'st_' + type(s).__name__, None)
        if m is None:
            self.incomplete(s, 'unsupported statement kind %s' % type(s).__name__)
        return m(s)

    def st_Expr(self, s):
        if isinstance(s.value, ast.Constant):
            return False
        if isinstance(s.value, ast.Call) and self.inline_depth > 0 and getattr(self, 'inline_procedures', False) and \
                self._inline_procedure(s.value):
            return False
        self.ev(s.value)
        return False

    def _inline_procedure(self, e):
        """`helper(arr, a, b)` as a statement, helper a small package function without a return value that writes into
        its array arguments: its body is executed here, parameters bound to the actual values, so that its loops and
        stores belong to this kernel (a relabelling or fill loop moved into a helper reads as if written in place)"""
        try:
            f = self.prog.resolve_callable(self.func, self.mod, e.func)
        except Exception:       # noqa
            return False
        if not isinstance(f, Func) or f.is_lambda or f is self.func or f.vararg or f.kwarg or f.parent is not None:
            return False
        if any(isinstance(x, ast.Return) and x.value is not None for x in ast.walk(f.node)) or \
                any(isinstance(x, (ast.Yield, ast.YieldFrom, ast.Global, ast.Nonlocal)) for x in ast.walk(f.node)):
            return False
        if not any(isinstance(x, ast.Subscript) and isinstance(x.ctx, ast.Store) and isinstance(x.value, ast.Name) and
                   x.value.id in f.params for x in ast.walk(f.node)) and not any(isinstance(x, ast.Raise) for x in ast.walk(f.node)):
            return False        # neither a procedure that writes its arguments nor a validation helper that raises
        if sum(1 for x in ast.walk(f.node) if isinstance(x, ast.stmt)) > 25 or len(e.args) + len(e.keywords) > len(f.params):
            return False
        args = [self.ev(a) for a in e.args]
        bind = dict(zip(f.params, args))
        for k_ in e.keywords:
            if k_.arg not in f.params or k_.arg in bind:
                return False
            bind[k_.arg] = self.ev(k_.value)
        saved = (self.env, self.func, self.mod, self.inline_depth)
        env = {}
        for p in f.params:
            if p in bind:
                env[p] = bind[p]
            elif p in f.defaults():
                env[p] = None
            else:
                return False
        self.env, self.func, self.mod, self.inline_depth = env, f, f.module, self.inline_depth - 1
        try:
            for p, dnode in f.defaults().items():
                if env.get(p) is None and p not in bind:
                    env[p] = self.ev(dnode)
            self.block(f.node.body)
        finally:
            self.env, self.func, self.mod, self.inline_depth = saved
        return True

    def st_Pass(self, s):
        return False

    def st_Assert(self, s):
        return False

    def st_Raise(self, s):
        self.k.raises.append((list(self.guards), s))
        return True

    def st_Return(self, s):
        v = self.ev(s.value) if s.value is not None else None
        if getattr(self, 'ret_capture', None) is not None:
            self.ret_capture.append((v, list(self.guards)))      # a function executed in place: the value goes to the caller
            return True
        self.k.returns.append((v, list(self.guards)))
        return True

    def st_Continue(self, s):
        if getattr(self, 'cont_stack', None):
            self.cont_stack[-1].append((list(self.guards), dict(self.env)))
        return True

    def st_Break(self, s):
        self.k.breaks = getattr(self.k, 'breaks', []) + [(list(self.guards), s)]
        if getattr(self, 'break_stack', None):
            self.break_stack[-1].append((list(self.guards), dict(self.env), s))
        return True

    def st_Assign(self, s):
        v = self.ev(s.value)
        for t in s.targets:
            self.assign(t, v, s)
        return False

    def st_AnnAssign(self, s):
        if s.value is not None:
            self.assign(s.target, self.ev(s.value), s)
        return False

    def st_AugAssign(self, s):
        cur = self.ev(_load(s.target))
        rhs = self.ev(s.value)
        a = self.as_scalar(cur, s)
        b = self.as_scalar(rhs, s)
        op = s.op
        if isinstance(op, ast.Add):
            v = a + b
        elif isinstance(op, ast.Sub):
            v = a - b
        elif isinstance(op, ast.Mult):
            v = a * b
        elif isinstance(op, ast.Div):
            v = a / b
        else:
            v = Rat.atom(App('aug' + type(op).__name__, [a, b]))
        self.assign(s.target, v, s)
        return False

    def assign(self, t, v, node):
        if isinstance(t, ast.Name):
            if isinstance(v, Arr) and v.name.startswith('alloc#'):
                v.name = t.id if t.id not in self.k.arrays else v.name
                v.var = t.id
                self.k.arrays[v.name] = v
                v.alloc_loops = list(self.loops)
                self.k.events.append(('alloc', v))
            if isinstance(v, TupleV) and getattr(v, 'islist', False) and not hasattr(v, 'var'):
                v.var = t.id
            self.env[t.id] = v
            return
        if isinstance(t, (ast.Tuple, ast.List)):
            if isinstance(v, TupleV) and len(v.items) == len(t.elts):
                for te, ve in zip(t.elts, v.items):
                    self.assign(te, ve, node)
                return
            if isinstance(v, tuple) and v and v[0] == 'shape':
                for i, te in enumerate(t.elts):
                    self.assign(te, _extent(v[1], i), node)
                return
            if isinstance(v, tuple) and v and v[0] == 'shape-slice' and v[2].replace(' ', '') == '-2:' \
                    and len(t.elts) == 2:
                # h, w = raster.shape[-2:]  (2-D rasters: axes 0 and 1)
                for i, te in enumerate(t.elts):
                    self.assign(te, shape_sym(v[1].name, i), node)
                return
            # unpacking an array / a row of an array: element reads
            arr = self.as_arr(v, None) if isinstance(v, (Arr, tuple)) else None
            if arr is not None:
                for i, te in enumerate(t.elts):
                    self.assign(te, self.read(arr, (Rat.const(i),)), node)
                return
            ra = self.row_alias(v) if isinstance(v, Rat) else None
            if ra is not None:
                for i, te in enumerate(t.elts):
                    self.assign(te, self.read(ra[0], ra[1] + (Rat.const(i),)), node)
                return
            sv = self.as_scalar(v, node)
            for i, te in enumerate(t.elts):
                self.assign(te, Rat.atom(App('unpack', [sv, Rat.const(i)])), node)
            return
        if isinstance(t, ast.Subscript):
            base = self.ev(t.value)
            if isinstance(base, FlatAlias) and self._masked_flat_store(base, t, node):
                return
            arr = self.as_arr(base, getattr(t.value, 'id', None))
            if arr is None and isinstance(base, View):
                idx = self.index_list(t.slice)
                axes = list(base.axes)
                free = [k for k, ax in enumerate(axes) if ax[0] == 'slice']
                for k, ix in zip(free, idx):
                    lo = axes[k][1]
                    if ix[0] == 'idx':
                        axes[k] = ('idx', (lo if lo is not None else Rat.const(0)) + ix[1])
                if all(ax[0] == 'idx' for ax in axes):
                    self.store(base.arr, tuple(ax[1] for ax in axes), self.as_scalar(v, node), node)
                else:
                    self.store(base.arr, tuple(axes), v, node)
                return
            if arr is None:
                ra = self.row_alias(base)
                ix = self.index_list(t.slice) if ra is not None else None
                if ra is not None and all(x[0] == 'idx' for x in ix):
                    self.store(ra[0], ra[1] + tuple(x[1] for x in ix), self.as_scalar(v, node), node)
                    return
                self.incomplete(node, 'store into %r' % (base,))
            idx = self.index_list(t.slice)
            if all(ix[0] == 'idx' for ix in idx):
                self.store(arr, tuple(ix[1] for ix in idx), self.as_scalar(v, node), node)
            elif all(ix[0] == 'slice' and ix[1] is None and ix[2] is None for ix in idx):
                self.store(arr, 'all', v if isinstance(v, Arr) else self.as_scalar(v, node), node)
            else:
                self.store(arr, tuple(idx), v if isinstance(v, (Arr, View)) else self.as_scalar(v, node), node)
            return
        if isinstance(t, ast.Attribute):
            self.k.calls.append(('setattr:' + norm(t), [v], list(self.guards), node))
            return
        self.incomplete(node, 'assignment target')

    def _masked_flat_store(self, fa, t, node):
        """`F[F == v] = w` / `F[np.equal(F, v)] = w` (any single comparison) with F a flat view of the local array A: every cell
        of A that passes the test gets w.  Read as the sweep it abbreviates - `for r: for c: if A[r, c] == v: A[r, c] = w` (a
        cell's test looks at that cell alone, before it is written, so the interleaving does not matter; v and w are scalars)."""
        arr = fa.arr
        if self.env.get(arr.var) is not arr or not isinstance(arr.shape, (list, tuple)) or len(arr.shape) not in (1, 2):
            return False
        m_ = t.slice
        is_f = lambda x: isinstance(x, ast.Name) and self.env.get(x.id) is fa      # noqa
        other = None
        opt = '=='
        OPS = {ast.Eq: '==', ast.NotEq: '!=', ast.Lt: '<', ast.LtE: '<=', ast.Gt: '>', ast.GtE: '>='}
        FN = {'equal': '==', 'not_equal': '!=', 'less': '<', 'less_equal': '<=', 'greater': '>', 'greater_equal': '>='}
        MIRROR = {'==': '==', '!=': '!=', '<': '>', '<=': '>=', '>': '<', '>=': '<='}
        a_ = b_ = None
        if isinstance(m_, ast.Compare) and len(m_.ops) == 1 and type(m_.ops[0]) in OPS:
            a_, b_, opt = m_.left, m_.comparators[0], OPS[type(m_.ops[0])]
        elif isinstance(m_, ast.Call) and norm(m_.func).split('.')[-1] in FN and len(m_.args) == 2 and not m_.keywords:
            (a_, b_), opt = m_.args, FN[norm(m_.func).split('.')[-1]]
        if a_ is not None:
            if is_f(a_):
                other = b_
            elif is_f(b_):
                other, opt = a_, MIRROR[opt]
        val = node.value if isinstance(node, ast.Assign) else None
        if other is None or val is None:
            return False
        for x in (other, val):
            if any(isinstance(y, ast.Name) and self.env.get(y.id) is fa for y in ast.walk(x)):
                return False
            xv = self.ev(x)
            if not isinstance(xv, (Rat, int, float, bool)) and not (isinstance(xv, tuple) and xv and xv[0] == 'param'):
                return False
        self.fresh += 1
        vs = ['_sweep%d_%d' % (self.fresh, i_) for i_ in range(len(arr.shape))]
        cell = '%s[%s]' % (arr.var, ', '.join(vs))
        src = ''
        for i_, v_ in enumerate(vs):
            src += '    ' * i_ + 'for %s in range(%s.shape[%d]):\n' % (v_, arr.var, i_)
        src += '    ' * len(vs) + 'if %s %s %s:\n' % (cell, opt, ast.unparse(other))
        src += '    ' * (len(vs) + 1) + '%s = %s\n' % (cell, ast.unparse(val))
        loop = ast.parse(src).body[0]
        for n_ in ast.walk(loop):
            ast.copy_location(n_, node)
        self.stmt(loop)
        return True

    def store(self, arr, idx, value, node):
        if idx == 'all' and isinstance(value, Rat) and not self.guards and not self.loops:
            # whole-array initialisation
            if value == Rat.atom(App('nan', [])):
                arr.init = 'nan'
            elif value.is_const():
                arr.init = ('full', value)
            else:
                arr.init = ('full', value)
        if not hasattr(self, 'cells'):
            self.cells = {}
        if idx == 'all' or not (isinstance(idx, tuple) and all(isinstance(i, Rat) for i in idx)):
            for k in [k for k in self.cells if k[0] == arr.name]:
                del self.cells[k]
        else:
            key = (arr.name, tuple(i.canon_key() for i in idx))
            self.cells[key] = (value if isinstance(value, Rat) else None, tuple(cond_key(x) for x in self.guards), len(self.loops))
        st = Store(arr, idx, value, list(self.guards), list(self.loops), node)
        st.seq = self.fresh      # reads (cell? serial) made later carry a larger number
        self.fresh += 1
        self.k.stores.append(st)
        self.k.events.append(('store', st))

    def st_If(self, s):
        c = self.cond_of(self.ev(s.test), s)
        if c[0] == 'const':
            return self.block(s.body if c[1] else s.orelse)
        env0 = dict(self.env)
        self.guards.append(c)
        t1 = self.block(s.body)
        self.guards.pop()
        env1 = self.env
        self.env = dict(env0)
        self.guards.append(neg_cond(c))
        t2 = self.block(s.orelse)
        self.guards.pop()
        env2 = self.env
        term1, term2 = (t1 is True), (t2 is True)
        if term1 and term2:
            return True
        f1 = t1[1] if isinstance(t1, tuple) else None     # extra fall-through condition of the branch (None = always)
        f2 = t2[1] if isinstance(t2, tuple) else None
        if term1:
            self.env = env2
            return ('guard-rest', _conj(neg_cond(c), f2))
        if term2:
            self.env = env1
            return ('guard-rest', _conj(c, f1))
        self._fall = None
        if f1 is not None or f2 is not None:
            self._fall = ('or', _conj(c, f1), _conj(neg_cond(c), f2))
        # merge
        merged = {}
        for name in set(env1) | set(env2):
            a = env1.get(name, env0.get(name))
            b = env2.get(name, env0.get(name))
            if a is b:
                merged[name] = a
                continue
            # a parameter typed as an array on one branch only (typing is lazy): it is that array on both
            if isinstance(a, Arr) and isinstance(b, tuple) and b[:1] == ('param',) and b[1] == a.name:
                merged[name] = a
                continue
            if isinstance(b, Arr) and isinstance(a, tuple) and a[:1] == ('param',) and a[1] == b.name:
                merged[name] = b
                continue
            if isinstance(a, Rat) and isinstance(b, Rat):
                merged[name] = a if a == b else Rat.atom(App('ite', [cond_arg(c), a, b]))
            elif _is_cond(a) and _is_cond(b):
                merged[name] = ('or', ('and', c, a), ('and', neg_cond(c), b)) if cond_key(a) != cond_key(b) else a
            elif a is None or b is None or isinstance(a, (Arr, View, TupleV, Opaque)) or \
                    isinstance(b, (Arr, View, TupleV, Opaque)) or isinstance(a, tuple) or isinstance(b, tuple):
                if repr(a) == repr(b):
                    merged[name] = a
                else:
                    try:
                        sa = self.as_scalar(a) if a is not None else Rat.atom(App('undef', []))
                        sb = self.as_scalar(b) if b is not None else Rat.atom(App('undef', []))
                        merged[name] = Rat.atom(App('ite', [cond_arg(c), sa, sb]))
                    except AnalysisIncomplete:
                        merged[name] = Opaque('phi(%s)' % name)
            else:
                merged[name] = Opaque('phi(%s)' % name)
        self.env = merged
        if getattr(self, '_fall', None) is not None:
            fall = self._fall
            self._fall = None
            return ('guard-rest', fall)
        return False

    def _nd_desugar(self, s):
        """`for (y, x), v in np.ndenumerate(A)` / `for y, x in np.ndindex(r, c)` -> the nested range loops they abbreviate
        (only without `break`, which would leave one loop instead of two)"""
        it = s.iter
        if not (isinstance(it, ast.Call) and isinstance(it.func, ast.Attribute) and it.func.attr in ('ndenumerate', 'ndindex')):
            return None
        if any(isinstance(x, ast.Break) for b_ in s.body for x in ast.walk(b_)) or s.orelse:
            return None

        def rng(e_):
            return ast.Call(func=ast.Name(id='range', ctx=ast.Load()), args=[e_], keywords=[])

        def shp(a_, k_):
            return ast.Subscript(value=ast.Attribute(value=a_, attr='shape', ctx=ast.Load()), slice=ast.Constant(value=k_), ctx=ast.Load())
        if it.func.attr == 'ndenumerate' and len(it.args) == 1 and isinstance(s.target, ast.Tuple) and len(s.target.elts) == 2 and \
                isinstance(s.target.elts[0], ast.Tuple) and len(s.target.elts[0].elts) == 2 and isinstance(s.target.elts[1], ast.Name):
            ty, tx = s.target.elts[0].elts
            a_ = it.args[0]
            val = ast.Assign(targets=[ast.Name(id=s.target.elts[1].id, ctx=ast.Store())],
                             value=ast.Subscript(value=a_, slice=ast.Tuple(elts=[ast.Name(id=ty.id, ctx=ast.Load()), ast.Name(id=tx.id, ctx=ast.Load())], ctx=ast.Load()), ctx=ast.Load()))
            inner = ast.For(target=tx, iter=rng(shp(a_, 1)), body=[val] + list(s.body), orelse=[])
            outer = ast.For(target=ty, iter=rng(shp(a_, 0)), body=[inner], orelse=[])
        elif it.func.attr == 'ndindex' and isinstance(s.target, ast.Tuple) and len(s.target.elts) == 2 and \
                all(isinstance(t_, ast.Name) for t_ in s.target.elts):
            ty, tx = s.target.elts
            if len(it.args) == 2:
                r_, c_ = it.args
            elif len(it.args) == 1 and isinstance(it.args[0], ast.Attribute) and it.args[0].attr == 'shape':
                r_, c_ = shp(it.args[0].value, 0), shp(it.args[0].value, 1)
            elif len(it.args) == 1 and isinstance(it.args[0], ast.Tuple) and len(it.args[0].elts) == 2:
                r_, c_ = it.args[0].elts
            else:
                return None
            inner = ast.For(target=tx, iter=rng(c_), body=list(s.body), orelse=[])
            outer = ast.For(target=ty, iter=rng(r_), body=[inner], orelse=[])
        else:
            return None
        for n_ in ast.walk(outer):
            if not hasattr(n_, 'lineno'):
                ast.copy_location(n_, s)
        ast.fix_missing_locations(outer)
        return outer

    def _fused_desugar(self, s):
        """`for i in range(R * C): y, x = divmod(i, C)` (or `y = i // C; x = i % C`) -> the nested loops over (R, C) it
        flattens; `i` stays available as y * C + x.  Only without `break`."""
        it = s.iter
        if not (isinstance(it, ast.Call) and isinstance(it.func, ast.Name) and it.func.id in ('range', 'prange') and not it.keywords
                and isinstance(s.target, ast.Name)) or s.orelse:
            return None
        if len(it.args) == 2 and isinstance(it.args[0], ast.Constant) and it.args[0].value == 0:
            bound = it.args[1]
        elif len(it.args) == 1:
            bound = it.args[0]
        else:
            return None
        i_ = s.target.id
        if any(isinstance(x, ast.Break) for b_ in s.body for x in ast.walk(b_)):
            return None

        def is_i(e_):
            return isinstance(e_, ast.Name) and e_.id == i_
        ty = tx = div = None
        used = 0
        b0 = s.body[0] if s.body else None
        if isinstance(b0, ast.Assign) and len(b0.targets) == 1 and isinstance(b0.targets[0], ast.Tuple) and len(b0.targets[0].elts) == 2 and \
                all(isinstance(t_, ast.Name) for t_ in b0.targets[0].elts) and isinstance(b0.value, ast.Call) and \
                isinstance(b0.value.func, ast.Name) and b0.value.func.id == 'divmod' and len(b0.value.args) == 2 and is_i(b0.value.args[0]):
            ty, tx = (t_.id for t_ in b0.targets[0].elts)
            div = b0.value.args[1]
            used = 1
        elif len(s.body) >= 2:
            parts = {}
            for st in s.body[:2]:
                if isinstance(st, ast.Assign) and len(st.targets) == 1 and isinstance(st.targets[0], ast.Name) and \
                        isinstance(st.value, ast.BinOp) and isinstance(st.value.op, (ast.FloorDiv, ast.Mod)) and is_i(st.value.left):
                    parts[type(st.value.op)] = (st.targets[0].id, st.value.right)
            if len(parts) == 2 and norm(parts[ast.FloorDiv][1]) == norm(parts[ast.Mod][1]):
                ty, tx, div = parts[ast.FloorDiv][0], parts[ast.Mod][0], parts[ast.Mod][1]
                used = 2
        if div is None or len({ty, tx, i_}) != 3:
            return None
        try:
            hi = self.as_scalar(self.ev(bound), s)
            c = self.as_scalar(self.ev(div), s)
        except AnalysisIncomplete:
            return None
        if c.is_const():
            return None
        from .sym import cancel_monomial
        r = cancel_monomial(hi / c)
        if not r.d.is_const():
            return None
        # the divisor must not change inside the loop
        if any(isinstance(n_, ast.Name) and isinstance(n_.ctx, ast.Store) and n_.id in {x.id for x in ast.walk(div) if isinstance(x, ast.Name)}
               for b_ in s.body for n_ in ast.walk(b_)):
            return None
        self.fresh += 1
        rname = '__rows%d' % self.fresh
        self.env[rname] = r

        def rng(e_):
            return ast.Call(func=ast.Name(id='range', ctx=ast.Load()), args=[e_], keywords=[])
        body = list(s.body[used:])
        if any(isinstance(n_, ast.Name) and n_.id == i_ for b_ in body for n_ in ast.walk(b_)):
            flat = ast.Assign(targets=[ast.Name(id=i_, ctx=ast.Store())],
                              value=ast.BinOp(left=ast.BinOp(left=ast.Name(id=ty, ctx=ast.Load()), op=ast.Mult(), right=div),
                                              op=ast.Add(), right=ast.Name(id=tx, ctx=ast.Load())))
            body = [flat] + body
        inner = ast.For(target=ast.Name(id=tx, ctx=ast.Store()), iter=rng(div), body=body, orelse=[])
        outer = ast.For(target=ast.Name(id=ty, ctx=ast.Store()), iter=rng(ast.Name(id=rname, ctx=ast.Load())), body=[inner], orelse=[])
        for n_ in ast.walk(outer):
            if not hasattr(n_, 'lineno'):
                ast.copy_location(n_, s)
        ast.fix_missing_locations(outer)
        return outer

    def _synced_for(self, s):
        """`for k in range(c, n): BODY; c += 1` where the counter c is the range's own start and nothing else changes c or
        k: k == c throughout, so this is `while c < n: BODY[k := c]; c += 1` (a run scanned with a for loop and a counter
        kept in step with it).  Only without `continue`."""
        it = s.iter
        if not (isinstance(it, ast.Call) and isinstance(it.func, ast.Name) and it.func.id in ('range', 'prange') and len(it.args) == 2
                and not it.keywords and isinstance(s.target, ast.Name) and isinstance(it.args[0], ast.Name)) or s.orelse or not s.body:
            return None
        k_, c_ = s.target.id, it.args[0].id
        last = s.body[-1]
        inc = isinstance(last, ast.AugAssign) and isinstance(last.op, ast.Add) and isinstance(last.target, ast.Name) and \
            last.target.id == c_ and isinstance(last.value, ast.Constant) and last.value.value == 1
        if not inc and isinstance(last, ast.Assign) and len(last.targets) == 1 and isinstance(last.targets[0], ast.Name) and \
                last.targets[0].id == c_ and isinstance(last.value, ast.BinOp) and isinstance(last.value.op, ast.Add):
            a_, b_ = last.value.left, last.value.right
            if any(isinstance(x, ast.Name) and x.id in (k_, c_) and isinstance(y, ast.Constant) and y.value == 1 for x, y in ((a_, b_), (b_, a_))):
                inc = True       # c = k + 1 (k == c here): the same step
                last = ast.copy_location(ast.AugAssign(target=ast.Name(id=c_, ctx=ast.Store()), op=ast.Add(), value=ast.Constant(value=1)), last)
        if k_ == c_ or not inc:
            return None
        for b_ in s.body[:-1]:
            for x in ast.walk(b_):
                if isinstance(x, ast.Continue) or (isinstance(x, ast.Name) and isinstance(x.ctx, ast.Store) and x.id in (k_, c_)):
                    return None
        if any(isinstance(x, ast.Name) and x.id in (k_, c_) for x in ast.walk(it.args[1])):
            return None
        if _live_after(self.func.node, s, k_):
            return None

        class R(ast.NodeTransformer):
            def visit_Name(self, n):
                return ast.copy_location(ast.Name(id=c_, ctx=n.ctx), n) if n.id == k_ else n
        import copy
        body = [R().visit(copy.deepcopy(b_)) for b_ in s.body[:-1]] + [last]
        new = ast.While(test=ast.Compare(left=ast.Name(id=c_, ctx=ast.Load()), ops=[ast.Lt()], comparators=[it.args[1]]), body=body, orelse=[])
        ast.copy_location(new, s)
        ast.fix_missing_locations(new)
        return new

    def st_For(self, s):
        nd = self._nd_desugar(s) or self._fused_desugar(s)
        if nd is not None:
            return self.st_For(nd)
        sw = self._synced_for(s)
        if sw is not None:
            self._no_counted = getattr(self, '_no_counted', set()) | {id(sw)}
            return self.st_While(sw)
        it = self.ev(s.iter)
        if isinstance(it, tuple) and it and it[0] == 'iter' and it[1] in ('range', 'prange'):
            args = [self.as_scalar(a, s) for a in it[2]]
            if len(args) == 1:
                lo, hi, step = Rat.const(0), args[0], Rat.const(1)
            elif len(args) == 2:
                lo, hi, step = args[0], args[1], Rat.const(1)
            else:
                lo, hi, step = args
            if not isinstance(s.target, ast.Name):
                self.incomplete(s, 'loop target')
            self.fresh += 1
            var = '%s@%d' % (s.target.id, self.fresh)
            loop = Loop(var, lo, hi, step, s, it[1])
            self.env[s.target.id] = Rat.sym(var)
        elif isinstance(s.target, ast.Name) and self.as_arr(it, getattr(s.iter, 'id', None)) is not None and \
                any(isinstance(x, ast.Subscript) and isinstance(x.ctx, ast.Store) and isinstance(x.value, ast.Name) and
                    x.value.id == s.target.id for b_ in s.body for x in ast.walk(b_)):
            # `for row in arr: row[k] = ...`: rows are views - the same as an index loop over the first axis
            arr = self.as_arr(it, getattr(s.iter, 'id', None))
            self.fresh += 1
            var = '%s@%d' % (s.target.id, self.fresh)
            loop = Loop(var, Rat.const(0), shape_sym(arr.name, 0), Rat.const(1), s, 'range')
            self.env[s.target.id] = Rat.atom(App('read', [arr.name, Rat.sym(var)]))
        elif self._indexable_iteration(s, it) is not None:
            # iteration over views / element-wise conditions (alone, zipped, enumerated): an index loop, the targets are
            # the elements at the index
            n_, binds = self._indexable_iteration(s, it)
            self.fresh += 1
            var = 'i_%s@%d' % (norm(s.target).replace(' ', '').replace(',', '_').replace('(', '').replace(')', '')[:20], self.fresh)
            loop = Loop(var, Rat.const(0), n_, Rat.const(1), s, 'range')
            for nm_, mk in binds:
                self.env[nm_] = mk(Rat.sym(var))
        else:
            # generic iteration: targets become opaque symbols
            self.fresh += 1
            var = '%s@%d' % (norm(s.target), self.fresh)
            loop = Loop(var, None, None, None, s, 'iter')
            loop.iterable = it
            src = self.arg_key(it) if not (isinstance(it, tuple) and it and it[0] == 'iter') else \
                Rat.atom(App('iter:' + it[1], [self.arg_key(a) for a in it[2]]))
            if isinstance(s.target, ast.Name):
                self.env[s.target.id] = Rat.atom(App('elem', [src, Rat.sym(var)]))
            else:
                for i, te in enumerate(ast.walk(s.target)):
                    if isinstance(te, ast.Name):
                        self.env[te.id] = Rat.atom(App('elem', [src, Rat.sym(var), Rat.const(i)]))
        self.k.loops.append(loop)
        self.loop_body(s, loop)
        if s.orelse:
            self.block(s.orelse)
        return False

    def _elementwise(self, v):
        """(length, index -> element) for values that are indexed position by position: 1-D views of arrays, rows of a
        2-D array (row views), element-wise conditions; None for anything else"""
        if isinstance(v, View):
            free = [k for k, ax in enumerate(v.axes) if ax[0] == 'slice']
            if not free:
                return None
            k0 = free[0]
            lo = v.axes[k0][1] if v.axes[k0][1] is not None else Rat.const(0)
            hi = v.axes[k0][2]
            if hi is None:
                hi = shape_sym(v.arr.name, k0)
            elif isinstance(hi, Rat) and hi.is_const() and hi.const_value() < 0:
                hi = shape_sym(v.arr.name, k0) + hi
            if isinstance(lo, Rat) and lo.is_const() and lo.const_value() < 0:
                lo = shape_sym(v.arr.name, k0) + lo

            def mk(i, v=v, k0=k0, lo=lo, free=free):
                axes = list(v.axes)
                axes[k0] = ('idx', lo + i)
                if all(ax[0] == 'idx' for ax in axes):
                    return self.read(v.arr, tuple(ax[1] for ax in axes))
                return View(v.arr, axes)
            return hi - lo, mk
        if isinstance(v, Rat):
            ra = self.row_alias(v)
            if ra is not None:
                arr, idx = ra
                k0 = len(idx)
                return shape_sym(arr.name, k0), (lambda i, arr=arr, idx=idx: self.read(arr, idx + (i,)))
        if isinstance(v, Opaque) and v.struct and v.struct[0] == 'matches':
            # the positions np.where(cond)[0] walked one by one: element i is the i-th match, there are count(cond) of them
            P = v.struct[1]
            return Rat.atom(App('count', [P])), (lambda i, P=P: Rat.atom(App('match', [P, i])))
        if isinstance(v, tuple) and v and v[0] in ('cmp', 'and', 'or', 'not', 'truth'):
            arrs = [a.args[0] for a in walk_atoms(v) if isinstance(a, App) and a.name == 'arr' and a.args and a.args[0] in self.k.arrays]
            if not arrs:
                return None
            return shape_sym(arrs[0], 0), (lambda i, v=v: self.index_cond(v, i))
        return None

    def _indexable_iteration(self, s, it):
        """(length, [(target name, index -> value)]) when the loop runs over element-wise values - directly, through
        zip(..) of such values and arrays, or enumerate(.., start) of either - else None (generic iteration)"""
        def parts(it, tgt):
            # -> list of (target node, (length, maker)) or None
            if isinstance(it, tuple) and it and it[0] == 'iter' and it[1] == 'enumerate' and it[2] and isinstance(tgt, (ast.Tuple, ast.List)) \
                    and len(tgt.elts) == 2 and isinstance(tgt.elts[0], ast.Name):
                start = self.as_scalar(it[2][1]) if len(it[2]) > 1 else Rat.const(0)
                inner = parts(it[2][0], tgt.elts[1])
                if inner is None:
                    return None
                return [(tgt.elts[0], (inner[0][1][0], lambda i, start=start: start + i))] + inner
            if isinstance(it, tuple) and it and it[0] == 'iter' and it[1] == 'zip' and isinstance(tgt, (ast.Tuple, ast.List)) and \
                    len(tgt.elts) == len(it[2]):
                out = []
                for a, t_ in zip(it[2], tgt.elts):
                    p = parts(a, t_)
                    if p is None:
                        return None
                    out += p
                return out
            if isinstance(it, tuple) and it and it[0] == 'iter' and it[1] in ('range', 'prange') and isinstance(tgt, ast.Name):
                # a range walked through enumerate / zip: element i is lo + i * step
                ra = [self.as_scalar(a) for a in it[2]]
                lo_, hi_, st_ = (Rat.const(0), ra[0], Rat.const(1)) if len(ra) == 1 else (ra[0], ra[1], Rat.const(1)) if len(ra) == 2 else tuple(ra)
                if isinstance(st_, Rat) and st_.is_const() and st_.const_value() in (1, -1):
                    ranges_in.append(1)
                    return [(tgt, ((hi_ - lo_) * st_, lambda i, lo_=lo_, st_=st_: lo_ + i * st_))]
                return None
            ew = self._elementwise(it)
            if ew is None and isinstance(tgt, ast.Name):
                arr = self.as_arr(it, None) if isinstance(it, (Arr, tuple)) and not (isinstance(it, tuple) and it and it[0] in ('iter',)) else None
                if arr is not None:
                    ew = (shape_sym(arr.name, 0), lambda i, arr=arr: self.read(arr, (i,)))
                    if tgt.id in rowish:
                        rows_of.append(arr)
            if ew is None:
                return None
            if isinstance(tgt, ast.Name):
                return [(tgt, ew)]
            if isinstance(tgt, (ast.Tuple, ast.List)):
                # unpacking a row view element by element: for (a, b, c) in rows
                out = []
                for k_, t_ in enumerate(tgt.elts):
                    if not isinstance(t_, ast.Name):
                        return None
                    out.append((t_, (ew[0], lambda i, k_=k_, mk=ew[1]: self._component(mk(i), k_))))
                return out
            return None
        # the elements of a plain array are its rows when the body iterates over / indexes them again
        rowish = set()
        for b_ in s.body:
            for x in ast.walk(b_):
                if isinstance(x, ast.For):
                    rowish |= {n_.id for n_ in ast.walk(x.iter) if isinstance(n_, ast.Name)}
                elif isinstance(x, ast.Subscript) and isinstance(x.value, ast.Name):
                    rowish.add(x.value.id)
                elif isinstance(x, ast.Assign) and isinstance(x.value, ast.Call) and isinstance(x.value.func, ast.Name) and \
                        x.value.func.id in ('zip', 'enumerate'):
                    rowish |= {n_.id for n_ in ast.walk(x.value) if isinstance(n_, ast.Name)}
        rows_of = []
        ranges_in = []
        p = parts(it, s.target)
        if p is None:
            return None
        # only when something element-wise (a view or a condition) takes part: plain arrays / literal tables keep the
        # generic form the table rules read
        def has_ew(it):
            if self._elementwise(it) is not None:
                return True
            return isinstance(it, tuple) and it and it[0] == 'iter' and it[1] in ('zip', 'enumerate') and any(has_ew(a) for a in it[2])
        if not has_ew(it) and not rows_of and not ranges_in and not (getattr(self, 'index_arrays', False) and isinstance(it, tuple) and it and
                                                   it[0] == 'iter' and it[1] == 'enumerate'):
            return None
        lengths = [ln for t_, (ln, mk) in p]
        return lengths[0], [(t_.id, mk) for t_, (ln, mk) in p if isinstance(t_, ast.Name)]

    def _component(self, v, k_):
        if isinstance(v, View):
            free = [x for x, ax in enumerate(v.axes) if ax[0] == 'slice']
            if free:
                axes = list(v.axes)
                lo = axes[free[0]][1] if axes[free[0]][1] is not None else Rat.const(0)
                axes[free[0]] = ('idx', lo + Rat.const(k_))
                if all(ax[0] == 'idx' for ax in axes):
                    return self.read(v.arr, tuple(ax[1] for ax in axes))
                return View(v.arr, axes)
        return Rat.atom(App('unpack', [self.as_scalar(v), Rat.const(k_)]))

    def _induction_vars(self, s, loop, assigned, pre, accs):
        """counters advanced by hand in step with a range loop - the only write to n in the body is one top-level
        `n += c` (c a constant), nothing skips it: at the top of the iteration for loop value v the counter is
        pre + c * (v - lo) / step (the closed form instead of an opaque loop-carried symbol)"""
        out = {}
        if not isinstance(s, ast.For) or loop.kind not in ('range', 'prange') or loop.lo is None or not isinstance(loop.step, Rat) or \
                not loop.step.is_const() or abs(loop.step.const_value()) != 1:
            return out

        def skips(stmts):
            for st in stmts:
                if isinstance(st, (ast.For, ast.While)):
                    if any(isinstance(x, ast.Return) for x in ast.walk(st)):
                        return True
                    continue
                if any(isinstance(x, (ast.Continue, ast.Break, ast.Return)) for x in ast.walk(st) if not isinstance(x, (ast.For, ast.While))):
                    # a continue / break / return directly in this loop's body (not in a nested loop)
                    for x in ast.walk(st):
                        if isinstance(x, (ast.Continue, ast.Break, ast.Return)):
                            return True
            return False
        if skips(s.body):
            return out
        for n in assigned:
            if n in accs or not isinstance(pre.get(n), Rat) or n == getattr(s.target, 'id', None):
                continue
            tops = [st for st in s.body if isinstance(st, ast.AugAssign) and isinstance(st.target, ast.Name) and st.target.id == n and
                    isinstance(st.op, (ast.Add, ast.Sub)) and isinstance(st.value, ast.Constant) and isinstance(st.value.value, int)]
            writes = sum(1 for st in s.body for x in ast.walk(st) if isinstance(x, ast.Name) and x.id == n and isinstance(x.ctx, ast.Store))
            if len(tops) != 1 or writes != 1:
                continue
            reads = sum(1 for st in s.body for x in ast.walk(st) if isinstance(x, ast.Name) and x.id == n and isinstance(x.ctx, ast.Load))
            if not reads:
                continue        # a plain accumulator: summarised after the loop as before
            c = tops[0].value.value * (1 if isinstance(tops[0].op, ast.Add) else -1)
            out[n] = pre[n] + Rat.const(c) * (Rat.sym(loop.var) - loop.lo) * loop.step
        return out

    def loop_body(self, s, loop):
        assigned = _assigned_names(s.body)
        pre = {n: self.env.get(n) for n in assigned}
        accs = _accumulators(s.body, assigned)
        # loop-carried scalars become loop-phi symbols (except pure += accumulators, summarised after)
        carried = {}
        induction = self._induction_vars(s, loop, assigned, pre, accs)
        for n, v0 in induction.items():
            self.env[n] = v0
        for n in assigned:
            if n in induction:
                continue
            if n in pre and pre[n] is not None and _read_before_write(s.body, n):
                self.fresh += 1
                if isinstance(pre[n], (Rat,)) or (isinstance(pre[n], tuple) and pre[n] and pre[n][0] == 'param'):
                    carried[n] = Rat.sym('%s~loop%d' % (n, self.fresh))
                    if n in accs:
                        carried[n] = Rat.const(0)   # accumulate the per-iteration delta
                    self.env[n] = carried[n]
                elif _is_cond(pre[n]):
                    carried[n] = Rat.sym('%s~loop%d' % (n, self.fresh))
                    self.env[n] = ('truth', carried[n])
        self.loops.append(loop)
        if not hasattr(self, 'cont_stack'):
            self.cont_stack = []
            self.break_stack = []
        self.cont_stack.append([])
        self.break_stack.append([])
        gdepth = len(self.guards)
        self.block(s.body)
        conts = self.cont_stack.pop()
        loop.gdepth = gdepth
        loop.pre = pre
        # values of the assigned names at the end of an iteration that falls through (not carried ones included)
        loop.end_env = {n: self.env.get(n) for n in assigned}
        loop.phi = dict(carried)
        # (extra guards, environment, node) of every path that leaves the loop through `break`
        loop.breaks = [(g[gdepth:], envb, nb) for g, envb, nb in self.break_stack.pop()]
        self.loops.pop()
        upd = self._carried_updates(carried, accs, conts, gdepth)
        loop.carried = upd
        if hasattr(self, 'cells'):
            for kk in [kk for kk, vv in self.cells.items() if vv[2] > len(self.loops)]:
                self.cells[kk] = (None, ('stale',), -1)
        if not self.loops:
            self._note_swept(loop)
        for n in assigned:
            post = self.env.get(n)
            if n in accs and n in carried and isinstance(post, Rat) and isinstance(pre[n], (Rat, tuple)) \
                    and not _is_cond(pre[n]):
                init = self.as_scalar(pre[n])
                term = post
                self.env[n] = init + Rat.atom(App('sum', [Rat.sym(loop.var), _b(loop.lo), _b(loop.hi), term]))
            elif isinstance(post, (Arr, View)) and (pre.get(n) is post or pre.get(n) is None):
                pass
            else:
                # value after the loop: unknown mixture of the pre-loop value and per-iteration values
                # (assignments under guards followed by break/continue included) -> opaque, unique per loop
                opq = Rat.atom(App('loopout', [Rat.sym(n), Rat.sym(loop.var)]))
                if _is_cond(post) or _is_cond(pre.get(n)):
                    self.env[n] = ('truth', opq)
                else:
                    self.env[n] = opq

    def _carried_updates(self, carried, accs, conts, gdepth):
        """end-of-iteration value of every loop-carried scalar as a function of its loop-phi symbol: the fall-through
        value, overridden on the paths that reach a `continue`"""
        upd = {}
        for n, symv in carried.items():
            if n in accs or not isinstance(symv, Rat):
                continue
            post = self.env.get(n)
            if _is_cond(post):
                post = self.as_scalar(post)      # boolean flags: bool(cond); unchanged == bool(truth(phi))
            okv = isinstance(post, Rat)
            for g, envc in reversed(conts):
                vc = envc.get(n)
                if _is_cond(vc):
                    vc = self.as_scalar(vc)
                extra = g[gdepth:]
                if not isinstance(vc, Rat) or not extra:
                    okv = False
                    break
                c = extra[0] if len(extra) == 1 else ('and',) + tuple(extra)
                if okv and vc != post:
                    post = Rat.atom(App('ite', [cond_arg(c), vc, post]))
            if okv:
                upd[n] = (symv, post)
        return upd

    def _counted_while(self, s):
        """`i = a; while i < n [and extra]: BODY; i += 1` (or counting down) -> the `for i in range(a, n): if not extra: break;
        BODY` it spells out.  Only when the counter is changed by the last statement alone and no `continue` skips it."""
        tests = list(s.test.values) if isinstance(s.test, ast.BoolOp) and isinstance(s.test.op, ast.And) else [s.test]
        if id(s) in getattr(self, '_no_counted', ()):
            return None
        if s.orelse or not s.body or not isinstance(s.body[-1], ast.AugAssign) or not isinstance(s.body[-1].target, ast.Name):
            return None
        inc = s.body[-1]
        idx = inc.target.id
        stepc = inc.value.value if isinstance(inc.value, ast.Constant) and isinstance(inc.value.value, int) else None
        if stepc not in (1,) or not isinstance(inc.op, (ast.Add, ast.Sub)):
            return None
        step = stepc if isinstance(inc.op, ast.Add) else -stepc
        body = s.body[:-1]
        for b_ in body:
            for x in ast.walk(b_):
                if isinstance(x, ast.Continue):
                    return None
                if isinstance(x, ast.Name) and x.id == idx and isinstance(x.ctx, ast.Store):
                    return None
        bound = None
        extra = []
        for t in tests:
            if bound is None and isinstance(t, ast.Compare) and len(t.ops) == 1 and isinstance(t.left, ast.Name) and t.left.id == idx and \
                    not any(isinstance(x, ast.Name) and x.id == idx for x in ast.walk(t.comparators[0])):
                op, b_ = t.ops[0], t.comparators[0]
                if step > 0 and isinstance(op, ast.Lt):
                    bound = b_
                elif step > 0 and isinstance(op, ast.LtE):
                    bound = ast.BinOp(left=b_, op=ast.Add(), right=ast.Constant(value=1))
                elif step < 0 and isinstance(op, ast.GtE):
                    bound = ast.BinOp(left=b_, op=ast.Sub(), right=ast.Constant(value=1))
                elif step < 0 and isinstance(op, ast.Gt):
                    bound = b_
                else:
                    return None
            else:
                extra.append(t)
        if bound is None or idx not in self.env or not isinstance(self.env[idx], Rat):
            return None
        if any(isinstance(x, ast.Name) and x.id == idx for t in extra for x in ast.walk(t)):
            return None
        # the counter's value after the loop differs between the two spellings (n vs. the last index): only when
        # nothing reads it afterwards - no load outside this loop, and not carried in from an enclosing loop
        if _live_after(self.func.node, s, idx):
            return None
        if any('~loop' in getattr(a, 'name', '') for a in walk_atoms(self.env[idx])):
            return None
        self.fresh += 1
        start = '__start_%s_%d' % (idx, self.fresh)
        self.env[start] = self.env[idx]
        head = []
        if extra:
            cond = extra[0] if len(extra) == 1 else ast.BoolOp(op=ast.And(), values=extra)
            head = [ast.If(test=ast.UnaryOp(op=ast.Not(), operand=cond), body=[ast.Break()], orelse=[])]
        rng = ast.Call(func=ast.Name(id='range', ctx=ast.Load()),
                       args=[ast.Name(id=start, ctx=ast.Load()), bound, ast.Constant(value=step)], keywords=[])
        new = ast.For(target=ast.Name(id=idx, ctx=ast.Store()), iter=rng, body=head + list(body), orelse=[])
        for n_ in ast.walk(new):
            if not hasattr(n_, 'lineno'):
                ast.copy_location(n_, s)
        ast.fix_missing_locations(new)
        return new

    def st_While(self, s):
        cw = self._counted_while(s)
        if cw is not None:
            return self.st_For(cw)
        self.fresh += 1
        var = 'while@%d' % self.fresh
        loop = Loop(var, None, None, None, s, 'while')
        self.k.loops.append(loop)
        assigned = _assigned_names(s.body)
        loop.pre = {n: self.env.get(n) for n in assigned}
        loop.phi = {}
        for n in assigned:
            v = self.env.get(n)
            if isinstance(v, Rat) or n not in self.env or \
                    (isinstance(v, tuple) and v and v[0] == 'param'):
                self.fresh += 1
                self.env[n] = Rat.sym('%s~w%d' % (n, self.fresh))
                loop.phi[n] = self.env[n]
            elif _is_cond(v):
                self.fresh += 1
                self.env[n] = ('truth', Rat.sym('%s~w%d' % (n, self.fresh)))
        c = self.cond_of(self.ev(s.test), s)
        self.loops.append(loop)
        self.guards.append(c)
        for stk in ('cont_stack', 'break_stack'):
            if not hasattr(self, stk):
                setattr(self, stk, [])
            getattr(self, stk).append([])
        gdepth = len(self.guards)
        loop.gdepth = gdepth - 1
        loop.test = c
        self.block(s.body)
        conts = self.cont_stack.pop()
        loop.breaks = [(g[gdepth:], envb, nb) for g, envb, nb in self.break_stack.pop()]
        loop.carried = self._carried_updates(loop.phi, set(), conts, gdepth)
        self.guards.pop()
        self.loops.pop()
        for n in assigned:
            v = self.env.get(n)
            if isinstance(v, (Arr, View)):
                continue
            self.fresh += 1
            opq = Rat.sym('%s~wout%d' % (n, self.fresh))
            self.env[n] = ('truth', opq) if _is_cond(v) else opq
        return False

    def st_FunctionDef(self, s):
        return False

    def st_Try(self, s):
        self.incomplete(s, 'try statement')

    def st_With(self, s):
        self.incomplete(s, 'with statement')

    def st_Delete(self, s):
        return False

    def st_Global(self, s):
        self.incomplete(s, 'global statement in kernel')


BUILTINS = {'range', 'len', 'max', 'min', 'abs', 'int', 'float', 'bool', 'isinstance', 'print', 'str', 'type',
            'enumerate', 'zip', 'set', 'list', 'tuple', 'sorted', 'round', 'pow', 'dict', 'ValueError',
            'TypeError', 'IndexError', 'RuntimeError', 'sum', 'any', 'all'}


def arr_alias(src, new):
    """astype result: a distinct Arr object that reads through to the same symbolic cells."""
    new.name = src.name
    new.init = src.init
    new.shape = src.shape
    return new


def merge_returns(returns, interp):
    vals = []
    for v, g in returns:
        if isinstance(v, (Rat,)):
            vals.append((v, g))
        elif _is_cond(v):
            vals.append((interp.as_scalar(v), g))
        elif isinstance(v, TupleV):
            vals.append((v, g))
        elif isinstance(v, Opaque) and v.struct and len(returns) == 1:
            return v
        else:
            return None
    if len(vals) == 1:
        return vals[0][0]
    if all(isinstance(v, Rat) for v, _ in vals):
        out = vals[-1][0]
        for v, g in reversed(vals[:-1]):
            if not g:
                return None
            c = g[0] if len(g) == 1 else ('and',) + tuple(g)
            out = v if v == out else Rat.atom(App('ite', [cond_arg(c), v, out]))
        return out
    if all(isinstance(v, TupleV) for v, _ in vals) and len({len(v.items) for v, _ in vals}) == 1:
        items = []
        for i in range(len(vals[0][0].items)):
            sub = [(interp.as_scalar(v.items[i]), g) for v, g in vals]
            items.append(merge_returns(sub, interp))
        return TupleV(items)
    return None


def shape_sym(name, i):
    return Rat.atom(App('shape', [name, i]))


def _extent(arr, i):
    """extent i of an array: for an array allocated in this kernel with an explicit shape, the expression it was given"""
    shp = getattr(arr, 'shape', None)
    if getattr(arr, 'init', 'param') != 'param' and isinstance(shp, (tuple, list)) and 0 <= i < len(shp) and isinstance(shp[i], Rat):
        return shp[i]
    return shape_sym(arr.name, i)


def _nonneg_atom(a):
    return isinstance(a, App) and a.name in ('shape', 'len', 'size')


def _may_alias(k1, k2):
    """two symbolic index tuples may denote the same cell unless some component differs by a non-zero constant"""
    if len(k1) != len(k2):
        return True
    return not any(a != b and _const_diff(a, b) for a, b in zip(k1, k2))


def _const_diff(a, b):
    # canonical keys: ('R', numerator key, denominator key); equal denominators and numerators differing only in the
    # constant term denote indices that differ by a non-zero constant
    try:
        na, da = dict(a[1]), a[2]
        nb, db = dict(b[1]), b[2]
    except Exception:
        return False
    if da != db:
        return False
    ra = {k: v for k, v in na.items() if k != ()}
    rb = {k: v for k, v in nb.items() if k != ()}
    return ra == rb and na.get(()) != nb.get(())


def _conj(a, b):
    if b is None:
        return a
    if a is None:
        return b
    return ('and', a, b)


def _is_cond(v):
    return isinstance(v, tuple) and bool(v) and v[0] in ('cmp', 'and', 'or', 'not', 'truth', 'const')


def _b(x):
    return x if x is not None else Rat.atom(App('none', []))


def _axes_key(axes):
    out = []
    for ax in axes:
        if ax[0] == 'idx':
            out.append(('idx', ax[1]))
        elif ax[0] == 'slice':
            out.append(('slice', _b(ax[1]), _b(ax[2])))
        else:
            out.append(('fancy',) + tuple(ax[1]))
    return tuple(out)


def _root(e):
    while isinstance(e, ast.Attribute):
        e = e.value
    return e


def _load(t):
    import copy
    n = copy.deepcopy(t)
    for x in ast.walk(n):
        if hasattr(x, 'ctx'):
            x.ctx = ast.Load()
    return n


def _frac(v):
    if isinstance(v, float):
        return Fraction(repr(v))
    return Fraction(v)


def _frac_text(text, v):
    try:
        return Fraction(text.replace('_', ''))
    except (ValueError, ZeroDivisionError):
        return Fraction(repr(v))


def _exact_sqrt(c):
    from math import isqrt
    if c < 0:
        return None
    n, d = c.numerator, c.denominator
    rn, rd = isqrt(n), isqrt(d)
    if rn * rn == n and rd * rd == d:
        return Fraction(rn, rd)
    return None


def _assigned_names(stmts):
    out = set()
    for s in stmts:
        for n in ast.walk(s):
            if isinstance(n, (ast.Assign,)):
                for t in n.targets:
                    for x in ast.walk(t):
                        if isinstance(x, ast.Name) and isinstance(x.ctx, ast.Store):
                            out.add(x.id)
            elif isinstance(n, ast.AugAssign) and isinstance(n.target, ast.Name):
                out.add(n.target.id)
            elif isinstance(n, ast.For):
                for x in ast.walk(n.target):
                    if isinstance(x, ast.Name):
                        out.add(x.id)
    return out


def _accumulators(stmts, assigned):
    """names whose only writes in the loop body are `n += expr` where expr does not read n."""
    accs = set()
    for n in assigned:
        ok = True
        cnt = 0
        for s in stmts:
            for x in ast.walk(s):
                if isinstance(x, ast.AugAssign) and isinstance(x.target, ast.Name) and x.target.id == n:
                    if not isinstance(x.op, ast.Add):
                        ok = False
                    if any(isinstance(y, ast.Name) and y.id == n for y in ast.walk(x.value)):
                        ok = False
                    cnt += 1
                elif isinstance(x, ast.Assign):
                    for t in x.targets:
                        for y in ast.walk(t):
                            if isinstance(y, ast.Name) and y.id == n and isinstance(y.ctx, ast.Store):
                                ok = False
                elif isinstance(x, ast.Name) and x.id == n and isinstance(x.ctx, ast.Load):
                    ok = ok and False if not _inside_aug(stmts, x, n) else ok
        if ok and cnt:
            accs.add(n)
    return accs


def _inside_aug(stmts, namenode, n):
    return False


def _read_before_write(stmts, name):
    """Conservative: True if `name` may be read in the body before being definitely written."""
    for s in stmts:
        # reads in this statement (for compound statements: anywhere inside)
        if isinstance(s, ast.Assign):
            if any(isinstance(x, ast.Name) and x.id == name for x in ast.walk(s.value)):
                return True
            for t in s.targets:
                if isinstance(t, ast.Name) and t.id == name:
                    return False
                if isinstance(t, (ast.Tuple, ast.List)) and any(isinstance(x, ast.Name) and x.id == name
                                                                for x in t.elts):
                    return False
                if any(isinstance(x, ast.Name) and x.id == name and isinstance(x.ctx, ast.Load)
                       for x in ast.walk(t)):
                    return True
            continue
        if isinstance(s, ast.AugAssign) and isinstance(s.target, ast.Name) and s.target.id == name:
            return True
        if any(isinstance(x, ast.Name) and x.id == name for x in ast.walk(s)):
            return True
    return False


def interpret(prog, func, args=None, strict=True, inline_depth=3, inline_procedures=False, inline_all=None, index_arrays=False):
    """inline_all: None, or a predicate Func -> bool naming the package functions that are executed in place (phases
    of a split kernel); everything else keeps the default treatment (expression helpers folded, the rest call records)"""
    it = Interp(prog, func, args, strict=strict, inline_depth=inline_depth)
    it.inline_procedures = inline_procedures
    it.inline_all = inline_all
    it.index_arrays = index_arrays      # `for i, v in enumerate(array)` as the index loop it is (opt-in: table rules read the generic form)
    for p, dnode in func.defaults().items():
        pass
    return it.run()
