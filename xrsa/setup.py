"""setup_cmd: nothing to build (stdlib only); verifies the interpreter and that /repo parses."""
import sys

from .program import Program


def main():
    p = Program()
    print('xrsa setup ok: python %s, %d modules, %d functions' % (sys.version.split()[0], len(p.modules),
                                                                  sum(1 for _ in p.all_funcs())))


if __name__ == '__main__':
    main()
