"""xrsa - repository-specific static analysis of makepath/xarray-spatial (stdlib only)."""
