"""Loader and resolver: parses /repo/xrspatial from the working tree on every run.

Nothing here imports or executes the analysed library.
"""
import ast
import os

REPO = os.environ.get('XRSA_REPO', '/repo')
PKG = 'xrspatial'
SKIP_DIRS = {'tests', 'datasets', '__pycache__'}


class AnalysisIncomplete(Exception):
    """The analyser cannot decide (anchor vanished, idiom outside the abstraction)."""


def norm(node):
    """Normalised source text of a node (position independent)."""
    try:
        return ast.unparse(node)
    except Exception:  # pragma: no cover
        return ast.dump(node)


class JitInfo:
    def __init__(self, kind, via, options):
        self.kind = kind        # 'cpu' | 'cuda' | 'delayed' | 'other'
        self.via = via          # text of the decorator
        self.options = options  # dict str -> python constant / text

    def __repr__(self):
        return 'JitInfo(%s,%s,%s)' % (self.kind, self.via, self.options)


class Func:
    def __init__(self, module, node, parent):
        self.module = module
        self.node = node
        self.parent = parent
        self.name = getattr(node, 'name', '<lambda>')
        self.qualname = (parent.qualname + '.' + self.name) if parent else self.name
        self.children = {}
        self.jit = None
        a = node.args
        self.params = [x.arg for x in a.posonlyargs + a.args]
        self.kwonly = [x.arg for x in a.kwonlyargs]
        self.vararg = a.vararg.arg if a.vararg else None
        self.kwarg = a.kwarg.arg if a.kwarg else None
        self._assigns = None

    @property
    def is_lambda(self):
        return isinstance(self.node, ast.Lambda)

    @property
    def body(self):
        if self.is_lambda:
            return [ast.Return(value=self.node.body)]
        return self.node.body

    def defaults(self):
        """param name -> default expr"""
        a = self.node.args
        pos = a.posonlyargs + a.args
        out = {}
        for p, d in zip(pos[len(pos) - len(a.defaults):], a.defaults):
            out[p.arg] = d
        for p, d in zip(a.kwonlyargs, a.kw_defaults):
            if d is not None:
                out[p.arg] = d
        return out

    def own_nodes(self):
        """All ast nodes of this function excluding nested function/lambda bodies."""
        out = []
        stack = list(self.body)
        while stack:
            n = stack.pop()
            out.append(n)
            if isinstance(n, (ast.FunctionDef, ast.AsyncFunctionDef, ast.Lambda, ast.ClassDef)):
                continue   # a nested definition: visible as a node, its body belongs to the nested function
            for c in ast.iter_child_nodes(n):
                if isinstance(c, (ast.FunctionDef, ast.AsyncFunctionDef, ast.Lambda, ast.ClassDef)):
                    out.append(c)  # the def node itself is visible, its body is not
                    continue
                stack.append(c)
        return out

    def local_assigns(self):
        """name -> list of value nodes assigned by simple `name = value` in this function."""
        if self._assigns is None:
            d = {}
            for n in self.own_nodes():
                if isinstance(n, ast.Assign):
                    for t in n.targets:
                        if isinstance(t, ast.Name):
                            d.setdefault(t.id, []).append(n.value)
                        elif isinstance(t, (ast.Tuple, ast.List)):
                            for i, e in enumerate(t.elts):
                                if isinstance(e, ast.Name):
                                    d.setdefault(e.id, []).append(('unpack', n.value, i))
                elif isinstance(n, ast.AugAssign) and isinstance(n.target, ast.Name):
                    d.setdefault(n.target.id, []).append(('aug', n))
                elif isinstance(n, (ast.For,)):
                    for e in ast.walk(n.target):
                        if isinstance(e, ast.Name):
                            d.setdefault(e.id, []).append(('for', n))
                elif isinstance(n, ast.AnnAssign) and isinstance(n.target, ast.Name) and n.value is not None:
                    d.setdefault(n.target.id, []).append(n.value)
                elif isinstance(n, (ast.With,)):
                    for it in n.items:
                        if it.optional_vars is not None:
                            for e in ast.walk(it.optional_vars):
                                if isinstance(e, ast.Name):
                                    d.setdefault(e.id, []).append(('with', n))
            self._assigns = d
        return self._assigns

    def __repr__(self):
        return '<Func %s:%s>' % (self.module.rel, self.qualname)


class FuncTable(dict):
    """top-level functions of a module by name.  Looking a name up (`get`, `[]`, `in`) also finds a package function that the
    module imports under that name (a helper moved into another module and imported back is still "the module's" helper
    for the rules that are anchored on it); iteration lists only the functions defined here."""
    def __init__(self, module):
        super().__init__()
        self._module = module
        self._prog = None

    def _imported(self, name):
        m, prog = self._module, self._prog
        if prog is None or not isinstance(name, str) or name not in m.imports:
            return None
        try:
            t = prog.resolve_global(m.name, name)
        except Exception:      # noqa
            return None
        return t if isinstance(t, Func) else None

    def get(self, name, default=None):
        if dict.__contains__(self, name):
            return dict.__getitem__(self, name)
        t = self._imported(name)
        return t if t is not None else default

    def __getitem__(self, name):
        if dict.__contains__(self, name):
            return dict.__getitem__(self, name)
        t = self._imported(name)
        if t is None:
            raise KeyError(name)
        return t


class Module:
    def __init__(self, name, path, rel):
        self.name = name
        self.path = path
        self.rel = rel
        with open(path, 'rb') as f:
            self.src = f.read().decode('utf-8')
        self.tree = ast.parse(self.src, filename=path)
        if os.environ.get('XRSA_NO_NORMALFORM', '0') != '1':
            from .normalform import normalise_module
            self.normalised = normalise_module(self.tree)       # N1: tests held in a local are put back (normalform.py)
        self.funcs = FuncTable(self)       # top-level name -> Func (imported package functions are found too)
        self.allfuncs = []    # all Funcs incl. nested and lambdas
        self.imports = {}     # local name -> ('mod', dotted) | ('attr', dotted, attr)
        self.assigns = {}     # module-level name -> list of value nodes
        self.classes = {}
        self._index()

    def _index(self):
        pkgparts = self.name.split('.')
        is_pkg = self.path.endswith('__init__.py')
        for n in ast.walk(self.tree):
            if isinstance(n, ast.Import):
                for a in n.names:
                    self.imports[a.asname or a.name.split('.')[0]] = ('mod', a.name if a.asname else a.name.split('.')[0])
            elif isinstance(n, ast.ImportFrom):
                if n.level:
                    base = pkgparts if is_pkg else pkgparts[:-1]
                    base = base[:len(base) - (n.level - 1)]
                    mod = '.'.join(base + ([n.module] if n.module else []))
                else:
                    mod = n.module
                for a in n.names:
                    self.imports[a.asname or a.name] = ('attr', mod, a.name)
        for n in self.tree.body:
            self._index_stmt(n)
        # nested statements at module level (try/if) also define names
        for n in self.tree.body:
            if isinstance(n, (ast.Try, ast.If)):
                for m in ast.walk(n):
                    if m is n:
                        continue
                    if isinstance(m, (ast.FunctionDef,)) and m.name not in self.funcs and self._is_module_level(m):
                        self._add_func(m, None)
        self._lambdas()

    def _is_module_level(self, fn):
        for top in self.tree.body:
            if isinstance(top, (ast.FunctionDef, ast.ClassDef)):
                for m in ast.walk(top):
                    if m is fn and m is not top:
                        return False
        return True

    def _index_stmt(self, n):
        if isinstance(n, (ast.FunctionDef, ast.AsyncFunctionDef)):
            self._add_func(n, None)
        elif isinstance(n, ast.ClassDef):
            self.classes[n.name] = n
        elif isinstance(n, ast.Assign):
            for t in n.targets:
                if isinstance(t, ast.Name):
                    self.assigns.setdefault(t.id, []).append(n.value)
        elif isinstance(n, ast.AnnAssign) and isinstance(n.target, ast.Name) and n.value is not None:
            self.assigns.setdefault(n.target.id, []).append(n.value)

    def _add_func(self, node, parent):
        f = Func(self, node, parent)
        self.allfuncs.append(f)
        if parent is None:
            self.funcs[f.name] = f
        else:
            parent.children[f.name] = f
        for m in f.own_nodes():
            if isinstance(m, (ast.FunctionDef, ast.AsyncFunctionDef)):
                self._add_func(m, f)
        return f

    def _lambdas(self):
        """Index lambdas: each gets a Func whose parent is the enclosing function (or None)."""
        self.lambda_funcs = {}
        known = {id(f.node): f for f in self.allfuncs}

        def visit(node, parent):
            for c in ast.iter_child_nodes(node):
                if isinstance(c, (ast.FunctionDef, ast.AsyncFunctionDef)):
                    visit(c, known.get(id(c), parent))
                elif isinstance(c, ast.Lambda):
                    f = Func(self, c, parent)
                    f.name = '<lambda@%s>' % norm(c)[:40]
                    f.qualname = (parent.qualname + '.' if parent else '') + f.name
                    self.allfuncs.append(f)
                    self.lambda_funcs[id(c)] = f
                    visit(c, f)
                else:
                    visit(c, parent)
        visit(self.tree, None)


class Ext:
    """A resolved reference to something outside the package, e.g. numpy.nanmean."""
    def __init__(self, dotted):
        self.dotted = dotted

    def __repr__(self):
        return 'Ext(%s)' % self.dotted

    def __eq__(self, o):
        return isinstance(o, Ext) and o.dotted == self.dotted

    def __hash__(self):
        return hash(self.dotted)


class Partial:
    def __init__(self, target, args, keywords, node):
        self.target = target
        self.args = args            # list of ast exprs
        self.keywords = keywords    # dict name -> ast expr
        self.node = node

    def __repr__(self):
        return 'Partial(%r,%d args,%s)' % (self.target, len(self.args), sorted(self.keywords))


class SelectedBackend:
    """`mapper(x)`: the function selected from a backend table for the array type of x"""
    def __init__(self, table):
        self.table = table

    def __repr__(self):
        return 'Selected(%r)' % self.table


class BackendTable:
    def __init__(self, entries, node, scope):
        self.entries = entries   # backend -> ast expr
        self.node = node
        self.scope = scope

    def __repr__(self):
        return 'BackendTable(%s)' % {k: norm(v)[:30] for k, v in self.entries.items()}


EXT_ALIASES = {'np': 'numpy', 'da': 'dask.array', 'xr': 'xarray', 'nb': 'numba', 'pd': 'pandas',
               'dd': 'dask.dataframe'}


class Program:
    def __init__(self, repo=None):
        self.repo = repo or REPO
        self.modules = {}
        root = os.path.join(self.repo, PKG)
        if not os.path.isdir(root):
            raise AnalysisIncomplete('package directory %s missing' % root)
        for dp, dns, fns in os.walk(root):
            dns[:] = sorted(d for d in dns if d not in SKIP_DIRS)
            for fn in sorted(fns):
                if not fn.endswith('.py'):
                    continue
                path = os.path.join(dp, fn)
                rel = os.path.relpath(path, self.repo)
                parts = rel[:-3].split(os.sep)
                if parts[-1] == '__init__':
                    parts = parts[:-1]
                name = '.'.join(parts)
                try:
                    self.modules[name] = Module(name, path, rel)
                except SyntaxError as e:
                    raise AnalysisIncomplete('cannot parse %s: %s' % (rel, e))
        for m_ in self.modules.values():
            m_.funcs._prog = self
        if os.environ.get('XRSA_NO_NORMALFORM', '0') != '1':
            from .normalform import mark_module_constants
            self.constants_marked = mark_module_constants(self.modules)      # N2: literals held in module-level names
        self._classify_decorators()
        if os.environ.get('XRSA_PUBVIEW', '0') == '1':      # experiment only: see DESIGN §9
            self._public_views()

    def _public_views(self):
        """public functions are read with their small private straight-line helpers inlined (inline.py): the rules on
        wrappers (validation, dispatch, casts, result construction) then see the same statements whether or not a
        maintainer has moved them into a helper"""
        from .inline import inline_view
        for m in self.modules.values():
            for name, f in list(m.funcs.items()):
                if name.startswith('_') or f.is_lambda or f.jit is not None:
                    continue
                g = inline_view(self, f)
                if g is not f:
                    m.funcs[name] = g
                    m.allfuncs = [g if x is f else x for x in m.allfuncs]

    # ---------------------------------------------------------------- lookup
    def module(self, short):
        name = short if short.startswith(PKG) else PKG + '.' + short
        m = self.modules.get(name)
        if m is None:
            raise AnalysisIncomplete('module %s not found' % name)
        return m

    def unit(self, m):
        """the module m together with the package modules that only m (or another member) imports: private helper
        modules a maintainer has split off m.  Rules that speak of "the functions of the zonal module" mean this unit."""
        cache = self.__dict__.setdefault('_units', {})
        if m.name in cache:
            return cache[m.name]
        importers = {}
        for a in self.modules.values():
            for imp in a.imports.values():
                tgt = imp[1]
                if tgt in self.modules and imp[0] == 'attr' and (tgt + '.' + imp[2]) in self.modules:
                    tgt = tgt + '.' + imp[2]
                if tgt in self.modules and tgt != a.name:
                    importers.setdefault(tgt, set()).add(a.name)
        members = {m.name}
        changed = True
        while changed:
            changed = False
            for name, who in importers.items():
                if name not in members and who and who <= members and name != PKG:
                    members.add(name)
                    changed = True
        cache[m.name] = members
        return members

    def same_unit(self, m, other):
        return other is m or other.name in self.unit(m)

    def func(self, modshort, name):
        m = self.module(modshort)
        f = m.funcs.get(name)
        if f is None:
            raise AnalysisIncomplete('function %s.%s not found' % (m.name, name))
        return f

    def all_funcs(self):
        for m in self.modules.values():
            for f in m.allfuncs:
                yield f

    def public_api(self):
        """names re-exported by xrspatial/__init__.py -> Func"""
        out = {}
        init = self.modules.get(PKG)
        if init is None:
            raise AnalysisIncomplete('xrspatial/__init__.py missing')
        for local, imp in init.imports.items():
            if imp[0] == 'attr' and imp[1] and imp[1].startswith(PKG):
                t = self.resolve_global(imp[1], imp[2])
                if isinstance(t, Func):
                    out[local] = t
        return out

    # ------------------------------------------------------------- resolution
    def resolve_global(self, modname, name, _seen=None):
        """Resolve a module-level name of a package module."""
        _seen = _seen or set()
        if (modname, name) in _seen:
            return None
        _seen.add((modname, name))
        m = self.modules.get(modname)
        if m is None:
            return Ext(modname + '.' + name)
        if name in m.funcs:
            return m.funcs[name]
        if name in m.imports:
            imp = m.imports[name]
            if imp[0] == 'mod':
                return Ext(imp[1])
            sub = imp[1] + '.' + imp[2] if imp[1] else imp[2]
            if imp[1] in self.modules:
                pm = self.modules[imp[1]]
                if imp[2] in pm.funcs or imp[2] in pm.imports or imp[2] in pm.assigns or imp[2] in pm.classes:
                    return self.resolve_global(imp[1], imp[2], _seen)
            if sub in self.modules:
                return ('module', sub)
            if imp[1] in self.modules:
                return self.resolve_global(imp[1], imp[2], _seen)
            return Ext((imp[1] + '.' if imp[1] else '') + imp[2])
        if name in m.assigns:
            vals = m.assigns[name]
            if len(vals) == 1:
                return ('modvalue', m, name, vals[0])
            return ('modvalue-multi', m, name, vals)
        if name in m.classes:
            return ('class', m, m.classes[name])
        return None

    def resolve_name(self, scope, module, name):
        """Resolve `name` as seen from function `scope` (Func or None) in `module`.

        Returns Func | Ext | Partial | ('lambda', Func) | ('local', scope, value) | ('param', scope, name)
        | ('modvalue', ...) | None
        """
        s = scope
        while s is not None:
            if name in s.children:
                return s.children[name]
            if name in s.params or name in s.kwonly or name == s.vararg or name == s.kwarg:
                return ('param', s, name)
            la = s.local_assigns()
            if name in la:
                vals = la[name]
                if len(vals) == 1 and isinstance(vals[0], ast.AST):
                    return ('local', s, vals[0])
                return ('local-multi', s, vals)
            s = s.parent
        return self.resolve_global(module.name, name)

    def resolve_callable(self, scope, module, expr, depth=0):
        """Resolve an expression in callee position to what will be called."""
        if depth > 8:
            return None
        if isinstance(expr, ast.Name):
            t = self.resolve_name(scope, module, expr.id)
            if isinstance(t, tuple) and t[0] == 'local':
                return self.resolve_callable(t[1], module, t[2], depth + 1)
            if isinstance(t, tuple) and t[0] == 'modvalue':
                return self.resolve_callable(None, t[1], t[3], depth + 1)
            return t
        if isinstance(expr, ast.Lambda):
            return module.lambda_funcs.get(id(expr))
        if isinstance(expr, ast.Attribute):
            dotted = self.dotted(scope, module, expr)
            if dotted is not None:
                return dotted
            return None
        if isinstance(expr, ast.Call):
            callee = self.resolve_callable(scope, module, expr.func, depth + 1)
            if isinstance(callee, Ext) and callee.dotted in ('functools.partial',):
                if not expr.args:
                    return None
                tgt = self.resolve_callable(scope, module, expr.args[0], depth + 1)
                return Partial(tgt, expr.args[1:], {k.arg: k.value for k in expr.keywords if k.arg}, expr)
            if isinstance(callee, Ext) and callee.dotted in ('dask.delayed', 'dask.delayed.delayed'):
                if expr.args:
                    return self.resolve_callable(scope, module, expr.args[0], depth + 1)
            if isinstance(callee, tuple) and callee[0] == 'class' and callee[2].name == 'ArrayTypeFunctionMapping':
                entries = {}
                for k in expr.keywords:
                    entries[k.arg] = k.value
                names = ['numpy_func', 'cupy_func', 'dask_func', 'dask_cupy_func']
                for i, a in enumerate(expr.args):
                    entries[names[i]] = a
                return BackendTable(entries, expr, scope)
            if isinstance(callee, BackendTable):
                return SelectedBackend(callee)   # mapper(agg) -> the entry selected for agg's array type
            if isinstance(callee, Func) and not callee.is_lambda and callee.jit is None and not expr.args and not expr.keywords:
                # a parameterless factory: `def _mapper(): return ArrayTypeFunctionMapping(...)`, `def _kernel(): return partial(f, k=1)`
                body = [s_ for s_ in callee.node.body if not (isinstance(s_, ast.Expr) and isinstance(s_.value, ast.Constant))]
                if len(body) == 1 and isinstance(body[0], ast.Return) and body[0].value is not None:
                    made = self.resolve_callable(callee, callee.module, body[0].value, depth + 1)
                    if isinstance(made, (BackendTable, Partial, Func)):
                        return made
            return ('callresult', callee, expr, module, scope)
        return None

    def dotted(self, scope, module, expr):
        """Attribute chain rooted at an import -> Ext / Func; else None."""
        parts = []
        e = expr
        while isinstance(e, ast.Attribute):
            parts.append(e.attr)
            e = e.value
        if not isinstance(e, ast.Name):
            return None
        root = self.resolve_name(scope, module, e.id)
        hops = 0
        while isinstance(root, tuple) and root[0] == 'local' and isinstance(root[2], (ast.Name, ast.Attribute)) \
                and hops < 4:
            # local alias of a module / external object: `generator = np.random`
            hops += 1
            if isinstance(root[2], ast.Name):
                root = self.resolve_name(root[1], module, root[2].id)
            else:
                root = self.dotted(root[1], module, root[2])
        parts.reverse()
        if isinstance(root, Ext):
            return Ext(root.dotted + '.' + '.'.join(parts))
        if isinstance(root, tuple) and root[0] == 'module':
            modname = root[1]
            t = None
            for i, p in enumerate(parts):
                t = self.resolve_global(modname, p)
                if isinstance(t, tuple) and t[0] == 'module':
                    modname = t[1]
                    continue
                if i != len(parts) - 1:
                    return None
            return t
        return None

    # ------------------------------------------------------------- decorators
    def _classify_decorators(self):
        for f in self.all_funcs():
            if f.is_lambda:
                continue
            for d in f.node.decorator_list:
                ji = self.classify_decorator(f.parent, f.module, d)
                if ji is not None:
                    f.jit = ji
        # name = jitdecorator(func) style is not used in the tree; module-level `x = jit(...)(f)` ignored

    def classify_decorator(self, scope, module, d, depth=0):
        if depth > 4:
            return None
        text = norm(d)
        call_opts = {}
        base = d
        if isinstance(d, ast.Call):
            base = d.func
            for k in d.keywords:
                if k.arg:
                    try:
                        call_opts[k.arg] = ast.literal_eval(k.value)
                    except Exception:
                        call_opts[k.arg] = norm(k.value)
        t = self.resolve_callable(scope, module, base)
        if isinstance(t, Ext):
            dn = t.dotted
            if dn in ('numba.jit', 'numba.njit', 'numba.generated_jit', 'numba.vectorize', 'numba.guvectorize',
                      'numba.stencil'):
                if dn == 'numba.njit':
                    call_opts.setdefault('nopython', True)
                return JitInfo('cpu', text, call_opts)
            if dn.startswith('numba.cuda.jit') or dn == 'numba.cuda.jit':
                return JitInfo('cuda', text, call_opts)
            if dn in ('dask.delayed', 'dask.delayed.delayed'):
                return JitInfo('delayed', text, call_opts)
            return None
        if isinstance(t, tuple) and t[0] == 'callresult':
            # e.g. ngjit = jit(nopython=True, nogil=True); decorator `@ngjit`
            inner = self.classify_decorator(t[4], t[3], t[2], depth + 1)
            if inner is not None:
                opts = dict(inner.options)
                opts.update(call_opts)
                return JitInfo(inner.kind, text, opts)
        return None
