"""Thorough tier: the quick obligations plus self-validation of the checker against its variant corpus.

For every mutant of the property's corpus (a scratch copy of the tree with one realistic breaking edit) the checker
must report a VIOLATION with the expected rule; for every twin (behaviour-preserving edit) it must stay silent.  A
mutant that is missed or a twin that alarms makes the run exit 2 (the analyser is unreliable) - never 1.
"""
import os
import shutil
import tempfile
from concurrent.futures import ThreadPoolExecutor

from . import corpus, selftest


def self_validate(prop, rep):
    sel = [v for v in corpus.CORPUS if v['prop'] == prop]
    if not sel:
        rep.add('SV', 'xrsa/corpus.py', prop, 'variant corpus', 0, None, 'no variants for this property')
        return
    root = tempfile.mkdtemp(prefix='xrsa-thorough-')
    try:
        with ThreadPoolExecutor(int(os.environ.get('XRSA_JOBS', '16'))) as ex:
            results = list(ex.map(lambda v: selftest.run_variant(v, root), sel))
    finally:
        shutil.rmtree(root, ignore_errors=True)
    nm = nt = 0
    for v, status, out in results:
        if status == 'SKIP':
            # the anchor text of the variant no longer exists in the tree (e.g. the tree itself was edited there):
            # the variant cannot be built - recorded, not counted against the checker
            rep.add('SV-skip', 'xrsa/corpus.py', prop, '%s %s: %s' % (v['kind'], v['id'], out[:120]), 0, True, trivial=True)
            continue
        ok = status == 'OK'
        if v['kind'] == 'mutant':
            nm += 1
        else:
            nt += 1
        rep.add('SV', 'xrsa/corpus.py', prop, '%s %s (%s)' % (v['kind'], v['id'], v.get('rule') or 'any rule'), 0,
                True if ok else None,
                'self-validation failed: %s -> %s' % (v['id'], status))
    rep.coverage_extra['self_validation'] = {'mutants_refuted': nm, 'twins_silent': nt}


# ----------------------------------------------------------------------------------------------------------------------
# The committed validation assets (/verif/seeded: changes that break a property, written by fresh sub-agents and confirmed
# by me; /verif/twins: behaviour-preserving refactorings, confirmed the same way) are replayed for the property: each
# patch is applied to a scratch copy of the tree under analysis and the property's quick check must answer what
# validation/expected.json records for it (exit 1 for a seed it refutes, 0 for a twin, 2 where DESIGN.md lists the variant
# as undecided).  A different answer makes the run exit 2 (the analyser does not behave as documented), never 1.  Patches
# that do not apply to the tree under analysis (it was edited there) are skipped.
def _apply_patch(dst, patch):
    import subprocess
    r = subprocess.run(['git', 'apply', '--unsafe-paths', '--directory=' + dst, patch], cwd='/', capture_output=True, text=True)
    if r.returncode != 0:
        r = subprocess.run(['patch', '-p1', '-s', '-f', '-d', dst, '-i', patch], capture_output=True, text=True)
    return r.returncode == 0


def _run_patch(args):
    import subprocess
    import sys
    d, prop, root = args
    from .program import REPO
    name = os.path.basename(d)
    dst = os.path.join(root, name)
    os.makedirs(dst)
    shutil.copytree(os.path.join(REPO, 'xrspatial'), os.path.join(dst, 'xrspatial'),
                    ignore=shutil.ignore_patterns('tests', 'datasets', '__pycache__', '*.pyc'))
    if not _apply_patch(dst, os.path.join(d, 'patch.diff')):
        shutil.rmtree(dst, ignore_errors=True)
        return name, None
    env = dict(os.environ, XRSA_REPO=dst, XRSA_EVIDENCE_DIR=os.path.join(dst, 'ev'), PYTHONPATH=selftest.VERIF)
    r = subprocess.run([sys.executable, '-m', 'xrsa.check', prop], cwd=selftest.VERIF, env=env, capture_output=True, text=True)
    shutil.rmtree(dst, ignore_errors=True)
    return name, r.returncode


def replay_assets(prop, rep):
    import glob
    import json
    exp_file = os.path.join(selftest.VERIF, 'validation', 'expected.json')
    if not os.path.exists(exp_file):
        return
    exp = json.load(open(exp_file))
    dirs = sorted(glob.glob(os.path.join(selftest.VERIF, 'seeded', prop + '-*')) +
                  glob.glob(os.path.join(selftest.VERIF, 'twins', 'T' + prop + '-*')))
    dirs = [d for d in dirs if os.path.exists(os.path.join(d, 'patch.diff')) and os.path.basename(d) in exp['variants']]
    root = tempfile.mkdtemp(prefix='xrsa-assets-')
    try:
        with ThreadPoolExecutor(int(os.environ.get('XRSA_JOBS', '16'))) as ex:
            results = list(ex.map(_run_patch, [(d, prop, root) for d in dirs]))
    finally:
        shutil.rmtree(root, ignore_errors=True)
    n = {'seed': 0, 'twin': 0, 'skipped': 0}
    for name, rc in results:
        kind = 'twin' if name.startswith('T') else 'seed'
        if rc is None:
            n['skipped'] += 1
            rep.add('SV-skip', 'validation/expected.json', prop, '%s %s: patch does not apply to this tree' % (kind, name), 0, True, trivial=True)
            continue
        want = exp['variants'][name].get(prop, 0)
        n[kind] += 1
        rep.add('SV-' + kind, 'validation/expected.json', prop, '%s %s: exit %d expected' % (kind, name, want), 0,
                True if rc == want else None, 'the check answered exit %d for %s, exit %d is recorded' % (rc, name, want))
    rep.coverage_extra['assets_replayed'] = n
