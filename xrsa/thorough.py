"""Thorough tier: the quick obligations plus self-validation of the checker against its variant corpus.

For every mutant of the property's corpus (a scratch copy of the tree with one realistic breaking edit) the checker
must report a VIOLATION with the expected rule; for every twin (behaviour-preserving edit) it must stay silent.  A
mutant that is missed or a twin that alarms makes the run exit 2 (the analyser is unreliable) - never 1.
"""
import os
import shutil
import tempfile
from concurrent.futures import ThreadPoolExecutor

from . import corpus, selftest


def self_validate(prop, rep):
    sel = [v for v in corpus.CORPUS if v['prop'] == prop]
    if not sel:
        rep.add('SV', 'xrsa/corpus.py', prop, 'variant corpus', 0, None, 'no variants for this property')
        return
    root = tempfile.mkdtemp(prefix='xrsa-thorough-')
    try:
        with ThreadPoolExecutor(int(os.environ.get('XRSA_JOBS', '16'))) as ex:
            results = list(ex.map(lambda v: selftest.run_variant(v, root), sel))
    finally:
        shutil.rmtree(root, ignore_errors=True)
    nm = nt = 0
    for v, status, out in results:
        if status == 'SKIP':
            # the anchor text of the variant no longer exists in the tree (e.g. the tree itself was edited there):
            # the variant cannot be built - recorded, not counted against the checker
            rep.add('SV-skip', 'xrsa/corpus.py', prop, '%s %s: %s' % (v['kind'], v['id'], out[:120]), 0, True, trivial=True)
            continue
        ok = status == 'OK'
        if v['kind'] == 'mutant':
            nm += 1
        else:
            nt += 1
        rep.add('SV', 'xrsa/corpus.py', prop, '%s %s (%s)' % (v['kind'], v['id'], v.get('rule') or 'any rule'), 0,
                True if ok else None,
                'self-validation failed: %s -> %s' % (v['id'], status))
    rep.coverage_extra['self_validation'] = {'mutants_refuted': nm, 'twins_silent': nt}
