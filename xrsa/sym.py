"""Exact rational-function algebra over atoms (symbols and uninterpreted applications).

Poly: dict monomial -> Fraction, monomial = tuple of (atom, power) sorted by atom key.
Rat : numerator Poly / denominator Poly; equality by cross multiplication.
Atoms are hashable canonical objects: Sym(name) or App(name, args) with args Rat or other hashables.
"""
from fractions import Fraction


class Sym:
    __slots__ = ('name',)

    def __init__(self, name):
        self.name = name

    def key(self):
        return ('S', self.name)

    def __eq__(self, o):
        return isinstance(o, Sym) and o.name == self.name

    def __hash__(self):
        return hash(('S', self.name))

    def __repr__(self):
        return self.name


class App:
    """Uninterpreted application; args must already be canonical (Rat are canonicalised)."""
    __slots__ = ('name', 'args', '_k', '_ks', '_r', '_h')

    def __init__(self, name, args):
        self.name = name
        self.args = tuple(args)
        self._k = ('A', name, tuple(_ckey(a) for a in self.args))
        self._ks = None
        self._r = None
        self._h = None

    def key(self):
        return self._k

    def __eq__(self, o):
        return self is o or (isinstance(o, App) and hash(self) == hash(o) and o._k == self._k)

    def __hash__(self):
        if self._h is None:
            self._h = hash(self._k)
        return self._h

    def __repr__(self):
        if self._r is None:
            self._r = '%s(%s)' % (self.name, ', '.join(repr(a) for a in self.args))
        return self._r


def _ckey(a):
    if isinstance(a, Rat):
        return a.canon_key()
    if isinstance(a, (Sym, App)):
        return a.key()
    if isinstance(a, tuple):
        return ('T',) + tuple(_ckey(x) for x in a)
    return ('C', repr(a))


def _akey(atom):
    """ordering / identity key of an atom inside canonical keys: name plus a structural digest (the process runs with a
    fixed hash seed).  Printing the nested key instead grows multiplicatively with the nesting depth of the atoms."""
    if isinstance(atom, App):
        if atom._ks is None:
            atom._ks = '%s#%016x' % (atom.name, hash(atom._k) & 0xFFFFFFFFFFFFFFFF)
        return atom._ks
    return repr(atom.key())


class Poly:
    __slots__ = ('t', '_ck')

    def __init__(self, terms=None):
        self.t = {}
        if terms:
            for m, c in terms.items():
                if c != 0:
                    self.t[m] = Fraction(c)

    @staticmethod
    def const(c):
        return Poly({(): Fraction(c)}) if c != 0 else Poly()

    @staticmethod
    def atom(a):
        return Poly({((a, 1),): Fraction(1)})

    def is_zero(self):
        return not self.t

    def is_const(self):
        return all(m == () for m in self.t)

    def const_value(self):
        return self.t.get((), Fraction(0))

    def __add__(self, o):
        r = dict(self.t)
        for m, c in o.t.items():
            v = r.get(m, 0) + c
            if v == 0:
                r.pop(m, None)
            else:
                r[m] = v
        p = Poly()
        p.t = r
        return p

    def __neg__(self):
        p = Poly()
        p.t = {m: -c for m, c in self.t.items()}
        return p

    def __sub__(self, o):
        return self + (-o)

    def __mul__(self, o):
        r = {}
        for m1, c1 in self.t.items():
            for m2, c2 in o.t.items():
                m = _mulmono(m1, m2)
                v = r.get(m, 0) + c1 * c2
                if v == 0:
                    r.pop(m, None)
                else:
                    r[m] = v
        p = Poly()
        p.t = r
        return p

    def scale(self, c):
        p = Poly()
        if c != 0:
            p.t = {m: v * c for m, v in self.t.items()}
        return p

    def __eq__(self, o):
        return isinstance(o, Poly) and self.t == o.t

    def __hash__(self):
        return hash(self.canon_key())

    def canon_key(self):
        ck = getattr(self, '_ck', None)
        if ck is None:
            ck = self._ck = tuple(sorted(((tuple((_akey(a), p) for a, p in m), (c.numerator, c.denominator))
                                         for m, c in self.t.items())))
        return ck

    def atoms(self):
        s = set()
        for m in self.t:
            for a, _ in m:
                s.add(a)
        return s

    def degree_in(self, atom):
        d = 0
        for m in self.t:
            for a, p in m:
                if a == atom:
                    d = max(d, p)
        return d

    def coeff_of(self, atom):
        """(coefficient poly of atom^1, rest) assuming degree <= 1 in atom."""
        co, rest = {}, {}
        for m, c in self.t.items():
            hit = [x for x in m if x[0] == atom]
            if hit:
                m2 = tuple(x for x in m if x[0] != atom)
                co[m2] = co.get(m2, 0) + c
            else:
                rest[m] = c
        return Poly(co), Poly(rest)

    def __repr__(self):
        if not self.t:
            return '0'
        parts = []
        for m, c in sorted(self.t.items(), key=lambda kv: repr(kv[0])):
            ms = '*'.join((repr(a) if p == 1 else '%r^%d' % (a, p)) for a, p in m)
            if not ms:
                parts.append(str(c))
            elif c == 1:
                parts.append(ms)
            elif c == -1:
                parts.append('-' + ms)
            else:
                parts.append('%s*%s' % (c, ms))
        return ' + '.join(parts).replace('+ -', '- ')


def _mulmono(m1, m2):
    if not m1:
        return m2
    if not m2:
        return m1
    d = {}
    for a, p in m1:
        d[a] = d.get(a, 0) + p
    for a, p in m2:
        d[a] = d.get(a, 0) + p
    return tuple(sorted(((a, p) for a, p in d.items() if p != 0), key=lambda ap: _akey(ap[0])))


class Rat:
    __slots__ = ('n', 'd', '_ck', '_rp')

    def __init__(self, n, d=None):
        if d is None:
            d = Poly.const(1)
        if d.is_zero():
            raise ZeroDivisionError('symbolic division by zero polynomial')
        # normalise: constant denominators are folded, monomial content kept simple
        if d.is_const():
            n = n.scale(1 / d.const_value())
            d = Poly.const(1)
        self.n = n
        self.d = d

    @staticmethod
    def const(c):
        return Rat(Poly.const(Fraction(c)))

    @staticmethod
    def atom(a):
        return Rat(Poly.atom(a))

    @staticmethod
    def sym(name):
        return Rat(Poly.atom(Sym(name)))

    def _ratio(self):
        """Fraction c with n == c*d (n/d cancels to a constant), else None"""
        if self.n.is_zero():
            return Fraction(0)
        if self.d.is_const():
            return self.n.const_value() / self.d.const_value() if self.n.is_const() else None
        m = next(iter(self.d.t))
        if m not in self.n.t or len(self.n.t) != len(self.d.t):
            return None
        c = self.n.t[m] / self.d.t[m]
        return c if self.n == self.d.scale(c) else None

    def is_const(self):
        return self._ratio() is not None

    def const_value(self):
        return self._ratio()

    def __add__(self, o):
        if self.d == o.d:
            return Rat(self.n + o.n, self.d)
        return Rat(self.n * o.d + o.n * self.d, self.d * o.d)

    def __neg__(self):
        return Rat(-self.n, self.d)

    def __sub__(self, o):
        return self + (-o)

    def __mul__(self, o):
        return Rat(self.n * o.n, self.d * o.d)

    def __truediv__(self, o):
        if o.n.is_zero():
            raise ZeroDivisionError('symbolic division by zero')
        return Rat(self.n * o.d, self.d * o.n)

    def __pow__(self, k):
        if k < 0:
            return Rat.const(1) / (self ** (-k))
        r = Rat.const(1)
        for _ in range(k):
            r = r * self
        return r

    def __eq__(self, o):
        return isinstance(o, Rat) and (self.n * o.d) == (o.n * self.d)

    def __hash__(self):
        # consistent with == only up to the canonical form below; used for small tables only
        return hash(self.canon_key())

    def canon_key(self):
        ck = getattr(self, '_ck', None)
        if ck is None:
            n, d = self._canon()
            ck = self._ck = ('R', n.canon_key(), d.canon_key())
        return ck

    def _canon(self):
        n, d = self.n, self.d
        if n.is_zero():
            return n, Poly.const(1)
        # make leading coefficient (in canonical order) of d equal 1
        k = sorted(d.t.items(), key=lambda kv: repr(tuple((_akey(a), p) for a, p in kv[0])))[0][1]
        return n.scale(1 / k), d.scale(1 / k)

    def atoms(self):
        return self.n.atoms() | self.d.atoms()

    def __repr__(self):
        r = getattr(self, '_rp', None)
        if r is None:
            r = self._rp = repr(self.n) if self.d.is_const() else '(%r)/(%r)' % (self.n, self.d)
        return r


def ZERO():
    return Rat.const(0)


def ONE():
    return Rat.const(1)


# ------------------------------------------------------------------ traversal / substitution
def cancel_monomial(r):
    """r with a single-monomial denominator divided out when every numerator term contains it (rows*cols / cols -> rows);
    r itself otherwise"""
    if r.d.is_const() or len(r.d.t) != 1:
        return r
    (dm, dc), = r.d.t.items()
    need = dict(dm)
    out = {}
    for mm, c in r.n.t.items():
        have = dict(mm)
        for a, pw in need.items():
            if have.get(a, 0) < pw:
                return r
            have[a] -= pw
        key = \
            tuple((a, have[a]) for a, pw in mm if have[a] > 0)
        out[key] = out.get(key, 0) + c / dc
    return Rat(Poly({k: v for k, v in out.items() if v != 0}))


def walk_atoms(x, seen=None):
    """All atoms occurring in x (Rat / App / nested tuples), recursively."""
    if seen is None:
        seen = set()
    if isinstance(x, Rat):
        for a in x.atoms():
            walk_atoms(a, seen)
    elif isinstance(x, App):
        if x not in seen:
            seen.add(x)
            for a in x.args:
                walk_atoms(a, seen)
    elif isinstance(x, Sym):
        seen.add(x)
    elif isinstance(x, tuple):
        for a in x:
            walk_atoms(a, seen)
    return seen


def subst(x, f, memo=None):
    """Rebuild x replacing atoms: f(atom) -> Rat or None (keep, but recurse into App args).  Results per atom are
    memoised for the whole call (expressions share sub-terms heavily); parts nothing changes in are returned as is."""
    if memo is None:
        memo = {}
    return _subst(x, f, memo)[0]


def _subst(x, f, memo):
    """(result, changed)"""
    if isinstance(x, Rat):
        n, cn = _subst_poly(x.n, f, memo)
        if x.d.is_const():
            if not cn:
                return x, False
            return n / Rat(x.d), True
        d, cd = _subst_poly(x.d, f, memo)
        if not cn and not cd:
            return x, False
        return n / d, True
    if isinstance(x, (App, Sym)):
        hit = memo.get(x)
        if hit is not None:
            return hit
        r = f(x)
        changed = True
        if r is None:
            changed = False
            if isinstance(x, App):
                args = []
                for a in x.args:
                    b, cb = _subst_arg(a, f, memo)
                    args.append(b)
                    changed = changed or cb
                if changed and x.name == 'ite' and len(args) == 3:
                    c = fold_cond(args[0])
                    if c is True:
                        r = args[1] if isinstance(args[1], Rat) else Rat.atom(App(x.name, args))
                    elif c is False:
                        r = args[2] if isinstance(args[2], Rat) else Rat.atom(App(x.name, args))
                    else:
                        r = Rat.atom(App(x.name, args))
                else:
                    r = Rat.atom(App(x.name, args)) if changed else Rat.atom(x)
            else:
                r = Rat.atom(x)
        memo[x] = (r, changed)
        return r, changed
    return x, False


def fold_cond(c):
    """True / False when a condition in App-argument form is decided by constants, else None"""
    if not isinstance(c, tuple) or not c:
        return None
    if c[0] == 'const':
        return bool(c[1])
    if c[0] == 'cmp' and isinstance(c[2], Rat) and c[2].is_const():
        v = c[2].const_value()
        return {'==': v == 0, '!=': v != 0, '<': v < 0, '<=': v <= 0}.get(c[1])
    if c[0] == 'not':
        r = fold_cond(c[1])
        return None if r is None else (not r)
    if c[0] in ('and', 'or'):
        rs = [fold_cond(x) for x in c[1:]]
        dec = c[0] == 'or'
        if any(r is dec for r in rs):
            return dec
        if all(r is (not dec) for r in rs):
            return not dec
    return None


def subst_arg(a, f, memo=None):
    if memo is None:
        memo = {}
    return _subst_arg(a, f, memo)[0]


def _subst_arg(a, f, memo):
    if isinstance(a, (Rat, App, Sym)):
        return _subst(a, f, memo)
    if isinstance(a, tuple):
        out = []
        changed = False
        for y in a:
            b, cb = _subst_arg(y, f, memo)
            out.append(b)
            changed = changed or cb
        return (tuple(out) if changed else a), changed
    return a, False


def _subst_poly(p, f, memo):
    """(Rat for the polynomial with atoms replaced, changed)"""
    changed = False
    for m in p.t:
        for a, pw in m:
            if _subst(a, f, memo)[1]:
                changed = True
    if not changed:
        return Rat(p), False
    out = Rat.const(0)
    for m, c in p.t.items():
        term = Rat.const(c)
        for a, pw in m:
            term = term * (memo[a][0] ** pw)
        out = out + term
    return out, True
