"""Recognition of NaN-aware equality tests (shared by C18 trim, C09 focal mean)."""
import ast

from .program import Func, norm


def _isnan_of(e):
    if isinstance(e, ast.Call) and norm(e.func) in ('np.isnan', 'numpy.isnan', 'math.isnan', 'isnan') and len(e.args) == 1:
        return norm(e.args[0])
    return None


def is_nan_aware_eq(prog, scope, test, a=None, b=None, depth=0):
    """test is `a == b or (isnan(a) and isnan(b))` (any order), or a call of a helper returning that.
    a, b: normalised texts of the two operands (None = any pair)."""
    if depth > 3:
        return False
    if isinstance(test, ast.BoolOp) and isinstance(test.op, ast.Or):
        eqs, nans = [], []
        for v in test.values:
            if isinstance(v, ast.Compare) and len(v.ops) == 1 and isinstance(v.ops[0], ast.Eq):
                eqs.append({norm(v.left), norm(v.comparators[0])})
            elif isinstance(v, ast.BoolOp) and isinstance(v.op, ast.And) and len(v.values) == 2:
                x, y = _isnan_of(v.values[0]), _isnan_of(v.values[1])
                if x and y:
                    nans.append({x, y})
        for e in eqs:
            if len(e) == 2 and e in nans and (a is None or e == {a, b}):
                return True
        return False
    if isinstance(test, ast.Call):
        t = prog.resolve_callable(scope, scope.module, test.func)
        if isinstance(t, Func) and len(test.args) == 2 and len(t.params) == 2:
            if a is not None and {norm(test.args[0]), norm(test.args[1])} != {a, b}:
                return False
            pa, pb = t.params
            # body: `if <nan-aware>: return True; return False`  or `return <nan-aware>`
            body = [s for s in t.node.body if not (isinstance(s, ast.Expr) and isinstance(s.value, ast.Constant))]
            if len(body) == 1 and isinstance(body[0], ast.Return):
                return is_nan_aware_eq(prog, t, body[0].value, pa, pb, depth + 1)
            if len(body) == 2 and isinstance(body[0], ast.If) and isinstance(body[1], ast.Return):
                r1 = body[0].body
                if len(r1) == 1 and isinstance(r1[0], ast.Return) and norm(r1[0].value) == 'True' and \
                        norm(body[1].value) == 'False' and not body[0].orelse:
                    return is_nan_aware_eq(prog, t, body[0].test, pa, pb, depth + 1)
    return False


def is_plain_eq(test, a=None, b=None):
    if isinstance(test, ast.Compare) and len(test.ops) == 1 and isinstance(test.ops[0], ast.Eq):
        s = {norm(test.left), norm(test.comparators[0])}
        return a is None or s == {a, b}
    return False
