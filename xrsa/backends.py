"""Backend tables of public operations and a small call graph."""
import ast

from .program import AnalysisIncomplete, BackendTable, Ext, Func, Partial, SelectedBackend, norm

SLOTS = {'numpy_func': 'numpy', 'dask_func': 'dask', 'cupy_func': 'cupy', 'dask_cupy_func': 'dask_cupy'}


class Path:
    """One backend path of a public op: the function called and the binding of its arguments."""
    def __init__(self, backend, target, call, args, keywords, scope, extra_kw=None):
        self.backend = backend
        self.target = target      # Func | Partial | lambda Func | None
        self.call = call          # ast.Call performing the dispatch call
        self.args = args          # ast exprs (positional actuals)
        self.keywords = keywords  # name -> ast expr
        self.scope = scope        # Func in which the call occurs
        self.extra_kw = extra_kw or {}

    def func(self):
        t = self.target
        while isinstance(t, Partial):
            t = t.target
        return t if isinstance(t, Func) else None

    def __repr__(self):
        return 'Path(%s -> %r)' % (self.backend, self.target)


def _kwargs_of(f, call):
    """keyword arguments of a call; `**opts` of a local `dict(a=.., b=..)` / dict literal is spelled out"""
    from .dasksites import _keywords
    return _keywords(f, call)


def calls_in(prog, f):
    """(call node, resolved target) for every call in f's own body."""
    out = []
    for n in f.own_nodes():
        if isinstance(n, ast.Call):
            out.append((n, prog.resolve_callable(f, f.module, n.func)))
    return out


def callees(prog, f, include_args=True, backend=None):
    """Package functions f may call (incl. functions passed as arguments, partials, lambdas)."""
    out = []
    seen = set()

    def add(t):
        while isinstance(t, Partial):
            t = t.target
        if isinstance(t, Func) and id(t) not in seen:
            seen.add(id(t))
            out.append(t)
        if isinstance(t, SelectedBackend):
            t = t.table
        if isinstance(t, BackendTable):
            for slot, v in t.entries.items():
                if backend is not None and SLOTS.get(slot) != backend:
                    continue
                add(prog.resolve_callable(t.scope, f.module, v))

    for n in f.own_nodes():
        if isinstance(n, ast.Call):
            t0 = prog.resolve_callable(f, f.module, n.func)
            add(t0)
            if isinstance(t0, tuple) and t0 and t0[0] == 'class' and t0[2].name == 'ArrayTypeFunctionMapping':
                continue   # the constructor call: entries are followed (per backend) when the table is used
            if include_args:
                for a in list(n.args) + [k.value for k in n.keywords]:
                    if isinstance(a, (ast.Name, ast.Lambda, ast.Attribute)) or \
                            (isinstance(a, ast.Call) and norm(a.func).endswith('partial')):
                        t = prog.resolve_callable(f, f.module, a)
                        if isinstance(t, (Func, Partial)):
                            add(t)
        elif isinstance(n, ast.Lambda):
            lf = f.module.lambda_funcs.get(id(n))
            if lf is not None:
                add(lf)
    return out


def reachable(prog, f, maxdepth=8, backend=None):
    out = []
    seen = {id(f)}
    work = [(f, 0)]
    while work:
        g, d = work.pop(0)
        out.append(g)
        if d >= maxdepth:
            continue
        for h in callees(prog, g, backend=backend):
            if id(h) not in seen:
                seen.add(id(h))
                work.append((h, d + 1))
    return out


def _backend_of_test(test):
    """classify an `if` test of an isinstance dispatch chain"""
    txt = norm(test)
    if 'cupy' in txt or 'cuda' in txt:
        return 'gpu'
    if 'isinstance' in txt and ('da.Array' in txt or 'dask' in txt):
        return 'dask'
    if 'isinstance' in txt and 'np.ndarray' in txt:
        return 'numpy'
    return None


def backend_paths(prog, f, _view=True):
    """All backend paths of public function f: via ArrayTypeFunctionMapping or isinstance chains.  When f itself
    dispatches nothing, its view with small private straight-line helpers inlined (inline.py) is read instead - the
    dispatch may have been moved into a helper; the paths' `scope` is then that view."""
    paths = _backend_paths(prog, f)
    if not [p for p in paths if p.backend in ('numpy', 'dask')] and _view and not f.is_lambda:
        from .inline import inline_view
        g = inline_view(prog, f)
        if g is not f:
            paths = _backend_paths(prog, g)
    return paths


def _backend_paths(prog, f):
    paths = []
    for n in f.own_nodes():
        if isinstance(n, ast.Call) and isinstance(n.func, (ast.Call, ast.Name)):
            t = prog.resolve_callable(f, f.module, n.func)
            if isinstance(t, SelectedBackend):
                t = t.table
                for slot, expr in t.entries.items():
                    tgt = prog.resolve_callable(t.scope, f.module, expr)
                    paths.append(Path(SLOTS.get(slot, slot), tgt, n, list(n.args), _kwargs_of(f, n), f))
    # isinstance chains
    for n in f.own_nodes():
        if isinstance(n, ast.If):
            test, taken = n.test, n.body
            while isinstance(test, ast.UnaryOp) and isinstance(test.op, ast.Not):
                # `if not isinstance(x, np.ndarray): <other backends> else: <numpy>`: the backend's statements are the other branch
                test, taken = test.operand, (n.orelse if taken is n.body else n.body)
            b = _backend_of_test(test)
            if b in ('numpy', 'dask'):
                for st in taken:
                    if isinstance(st, ast.If) and taken is n.orelse and _backend_of_test(st.test if not (isinstance(st.test, ast.UnaryOp)) else st.test.operand):
                        continue        # the rest of the chain is looked at on its own
                    for c in ast.walk(st):
                        if isinstance(c, ast.Call):
                            tgt = prog.resolve_callable(f, f.module, c.func)
                            if isinstance(tgt, (Func, Partial)):
                                paths.append(Path(b, tgt, c, list(c.args), _kwargs_of(f, c), f))
    return paths


def unwrap_lambda(prog, path):
    """`lambda *args: g(*args, k=v)` -> (g, extra keywords)"""
    t = path.target
    if isinstance(t, Func) and t.is_lambda:
        body = t.node.body
        if isinstance(body, ast.Call):
            g = prog.resolve_callable(t, t.module, body.func)
            return g, body
    return t, None


def bind_call(f, args, keywords, partial_chain=()):
    """param name -> actual ast expr for a call of Func f."""
    bind = {}
    params = list(f.params)
    pos = list(args)
    for p, a in zip(params, pos):
        bind[p] = a
    for k, v in keywords.items():
        bind[k] = v
    return bind


def splice_starred(prog, f, args):
    """positional actuals with `*name` spelled out where `name` holds a tuple of known components: a tuple literal, or what
    a package helper returns when its single `return` is a tuple of its own parameters (`coeffs = _validate(a, b, c1=c1)`
    returning `(c1, ...)`: the components are the actual arguments of that call).  Unknown `*x` are kept as they are."""
    out = []
    for a in args:
        if not isinstance(a, ast.Starred):
            out.append(a)
            continue
        v = local_value(f, a.value)
        if isinstance(v, (ast.Tuple, ast.List)):
            out.extend(v.elts)
            continue
        if isinstance(v, ast.Call):
            g = prog.resolve_callable(f, f.module, v.func)
            if isinstance(g, Func) and not g.is_lambda and not any(isinstance(x, ast.Starred) for x in v.args):
                rets = [r for r in g.own_nodes() if isinstance(r, ast.Return)]
                if len(rets) == 1 and isinstance(rets[0].value, ast.Tuple) and all(isinstance(x, ast.Name) and x.id in g.params for x in rets[0].value.elts) \
                        and not any(isinstance(n, ast.Name) and isinstance(n.ctx, ast.Store) and n.id in g.params for n in g.own_nodes()):
                    b = dict(zip(g.params, v.args))
                    b.update({k.arg: k.value for k in v.keywords if k.arg})
                    if all(x.id in b for x in rets[0].value.elts):
                        out.extend(b[x.id] for x in rets[0].value.elts)
                        continue
        out.append(a)
    return out


def local_value(f, e, depth=0):
    """follow single local assignments: Name -> its defining expression"""
    while isinstance(e, ast.Name) and depth < 5:
        vals = [v for v in f.local_assigns().get(e.id, []) if isinstance(v, ast.AST)]
        if len(vals) != 1 or e.id in f.params:
            # one component of a tuple assignment `a, b = x, y`
            tv = _tuple_component(f, e.id)
            if tv is None or e.id in f.params:
                break
            vals = [tv]
        e = vals[0]
        depth += 1
    return e


def _tuple_component(f, name):
    found = []
    for n in f.own_nodes():
        if isinstance(n, ast.Assign):
            for t in n.targets:
                if isinstance(t, ast.Name) and t.id == name:
                    found.append(None)
                elif isinstance(t, (ast.Tuple, ast.List)):
                    for i, x in enumerate(t.elts):
                        if isinstance(x, ast.Name) and x.id == name:
                            if isinstance(n.value, (ast.Tuple, ast.List)) and len(n.value.elts) == len(t.elts):
                                found.append(n.value.elts[i])
                            else:
                                found.append(None)
        elif isinstance(n, (ast.AugAssign, ast.For)) and any(isinstance(x, ast.Name) and x.id == name and isinstance(x.ctx, ast.Store)
                                                             for x in ast.walk(n.target)):
            found.append(None)
    return found[0] if len(found) == 1 else None


def delegation_binding(prog, pub, target, depth=0, seen=None):
    """{param of `target`: name of the public parameter of `pub` it receives} following helper calls whose actuals
    are plain names (pub -> helper -> ... -> target)."""
    if pub is target:
        return {p: p for p in pub.params}
    seen = seen or set()
    if id(pub) in seen or depth > 4:
        return None
    seen.add(id(pub))
    for n in pub.own_nodes():
        if isinstance(n, ast.Call):
            t = prog.resolve_callable(pub, pub.module, n.func)
            while isinstance(t, Partial):
                t = t.target
            if isinstance(t, Func) and t is not pub:
                inner = delegation_binding(prog, t, target, depth + 1, seen)
                if inner is None:
                    continue
                bind = {}
                for p, a in list(zip(t.params, n.args)) + [(k.arg, k.value) for k in n.keywords if k.arg]:
                    a = local_value(pub, a)
                    if isinstance(a, ast.Name):
                        bind[p] = a.id
                out = {}
                for tp, hp in inner.items():
                    if hp in bind:
                        out[tp] = bind[hp]
                return out
    return None
